/* Sidecar contracts for lib/gnu_gama/obsdata.h, template class Cluster<Observation> (property C10: "when some
   observations of a cluster are excluded the remaining ones use the corresponding sub-matrix").

   Only contracts, ghost state, stubs of CALLEES and harnesses live here; the bodies of update(), activeCov(),
   scaleCov(), activeObs/Dim/Nonz() and of CovMat::dim()/bandWidth() are extracted from /repo on every run.

   MODEL OF THE OBSERVATION LIST.  std::list<Observation*> is lowered to a C array `olist` of gv_n observation
   records; a list iterator is an index into it, `*i` is the address of record i (see unit.json "assumptions" for the
   exact token rewrites).  Each record carries the `active` flag and the value of the virtual dimension() (1..3).

   SPECIFICATION VOCABULARY.  The components of the cluster are the pairs (t,d), t = observation 0..gv_n-1,
   d = 0..dim(t)-1, in list order.  Three prefix sums (ghost arrays gv_pos, gv_act, gv_cnt, entries t = 0..gv_n):
       POS(t) = 1 + sum of dim(u), u < t            position of component (t,0) in the FULL covariance matrix
       ACT(t) =     sum of dim(u), u < t, u active  number of active components before observation t
       CNT(t) =     number of active u < t
   so that component (t,d) of an ACTIVE observation is row/column  ACT(t)+d+1  of the sub-matrix ("rank") and
   row/column POS(t)+d of the full matrix ("position").  The table is DEFINED by POS(0)=1, ACT(0)=CNT(0)=0 and the
   recurrence REC(t), which is used quantifier-free: instantiated at a range-checked index (GV_INST).  Facts that
   need induction over the table (monotonicity, ACT grows no faster than POS, absolute bounds) are proved once, by
   CBMC with a loop contract (= mechanised induction), as the contracts of the lemma functions gv_lemma_abs /
   gv_lemma_range (checks lemma_abs, lemma_range) and enter the other checks by call replacement.               */

//@ prelude
typedef double Float;
typedef int Index;
int gv_exc;

#define MAXN 1000000 /* stated bound: at most 10^6 observations in one cluster (total dimension <= 3*10^6) */
#define MAXD 32768   /* bound of units/matvec_index for CovMat products; needed by update() only (act_dim*(b+1)) */

struct Cluster;
typedef struct Obs {
  _Bool active_;           /* Observation::active()                                   */
  int dimension_;          /* value of the virtual Observation::dimension(), constant */
  struct Cluster *cluster; /* written by Cluster::update()                            */
  int cluster_index;
} Observation;

/* CovMat, abstractly: dimension, band width and the CONTENT OF ONE CELL (gv_r0,gv_c0), r0 <= c0, chosen arbitrarily
   by the harness (forall-introduction over cells).  gv_writes counts the non-const accesses to that cell. */
struct CovMat {
  Index row_;
  Index band_;
  Index gv_r0, gv_c0;
  Float gv_cell;
  Float gv_sink;
  int gv_writes;
};


struct Cluster {
  Observation *olist; /* observation_list */
  int gv_n;           /* its length       */
  struct CovMat covariance_matrix;
  int act_obs, act_dim, act_nonz;
  const int *gv_pos, *gv_act, *gv_cnt; /* ghost: prefix sums, gv_n+1 entries each */
};

typedef int gv_list_iterator;
#define GV_LIST_BEGIN(S) 0
#define GV_LIST_END(S) ((S)->gv_n)
#define GV_LIST_AT(S, i) (&(S)->olist[i])

#define POS(S, t) ((S)->gv_pos[t])
#define ACT(S, t) ((S)->gv_act[t])
#define CNT(S, t) ((S)->gv_cnt[t])
#define ODIM(S, t) ((S)->olist[t].dimension_)
#define OACT(S, t) ((S)->olist[t].active_)
#define REC(S, t)                                                                                        \
  (1 <= ODIM(S, t) && ODIM(S, t) <= 3 && POS(S, (t) + 1) == POS(S, t) + ODIM(S, t) &&                      \
   ACT(S, (t) + 1) == ACT(S, t) + (OACT(S, t) ? ODIM(S, t) : 0) && CNT(S, (t) + 1) == CNT(S, t) + (OACT(S, t) ? 1 : 0))
#define NTOT(S) (POS(S, (S)->gv_n) - 1) /* dimension of the cluster = dimension the covariance matrix must have */
#define NACT(S) ACT(S, (S)->gv_n)       /* sum of the dimensions of the active observations                    */
#define NCNT(S) CNT(S, (S)->gv_n)

#define WF_COV(A) (0 <= (A)->row_ && 0 <= (A)->band_ && ((A)->band_ < (A)->row_ || ((A)->band_ == 0 && (A)->row_ == 0)))
#define WF_CLUSTER(S)                                                                                    \
  (0 <= (S)->gv_n && (S)->gv_n <= MAXN && __CPROVER_rw_ok((S)->olist, (S)->gv_n * sizeof(Observation)) && \
   __CPROVER_r_ok((S)->gv_pos, ((S)->gv_n + 1) * sizeof(int)) && __CPROVER_r_ok((S)->gv_act, ((S)->gv_n + 1) * sizeof(int)) && \
   __CPROVER_r_ok((S)->gv_cnt, ((S)->gv_n + 1) * sizeof(int)) && POS(S, 0) == 1 && ACT(S, 0) == 0 && \
   CNT(S, 0) == 0 && WF_COV(&(S)->covariance_matrix))
/* update() has run since the list / the flags changed last (postcondition of update(); activeCov() does NOT need it) */
#define FRESH(S) ((S)->act_dim == NACT(S))

#define SAMEVAL(x, y) ((x) == (y) || ((x) != (x) && (y) != (y)))
/* value of element (r,c), r <= c, of the full matrix as far as the abstraction knows it: 0 outside the band
   (covmat.h: the const operator() returns 0 for s > r+band_), the tracked content at the tracked cell */
#define FULL_TRACKED(A) ((A)->gv_c0 > (A)->gv_r0 + (A)->band_ ? 0.0 : (A)->gv_cell)

/* ---- lemma functions: induction over the prefix-sum table, proved by CBMC (checks lemma_abs, lemma_range) ---- */
#define LEM_ABS(S, t)                                                                                    \
  (1 + (t) <= POS(S, t) && POS(S, t) <= 1 + 3 * (t) && 0 <= ACT(S, t) && ACT(S, t) <= POS(S, t) - 1 &&   \
   0 <= CNT(S, t) && CNT(S, t) <= (t) && CNT(S, t) <= ACT(S, t))
#define LEM_RANGE(S, s, t)                                                                               \
  (ACT(S, s) <= ACT(S, t) && ACT(S, t) - ACT(S, s) <= POS(S, t) - POS(S, s) &&                           \
   (t) - (s) <= POS(S, t) - POS(S, s) && POS(S, t) - POS(S, s) <= 3 * ((t) - (s)) &&                     \
   CNT(S, s) <= CNT(S, t) && CNT(S, t) - CNT(S, s) <= (t) - (s) && CNT(S, t) - CNT(S, s) <= ACT(S, t) - ACT(S, s))

void gv_lemma_abs(const struct Cluster *S, int t)
__CPROVER_requires(WF_CLUSTER(S) && 0 <= t && t <= S->gv_n)
__CPROVER_assigns()
__CPROVER_ensures(LEM_ABS(S, t))
{
  GV_CANARY("gv_lemma_abs entry");
  for (int u = 0; u < t; u++)
  __CPROVER_assigns(u)
  __CPROVER_loop_invariant(0 <= u && u <= t && LEM_ABS(S, u))
  __CPROVER_decreases(t - u)
  {
    GV_INST(0 <= u && u < S->gv_n, REC(S, u));
  }
}

void gv_lemma_range(const struct Cluster *S, int s, int t)
__CPROVER_requires(WF_CLUSTER(S) && 0 <= s && s <= t && t <= S->gv_n)
__CPROVER_assigns()
__CPROVER_ensures(LEM_RANGE(S, s, t) && LEM_ABS(S, s) && LEM_ABS(S, t))
{
  GV_CANARY("gv_lemma_range entry");
  gv_lemma_abs(S, s);
  for (int u = s; u < t; u++)
  __CPROVER_assigns(u)
  __CPROVER_loop_invariant(s <= u && u <= t && LEM_RANGE(S, s, u) && LEM_ABS(S, u))
  __CPROVER_decreases(t - u)
  {
    GV_INST(0 <= u && u < S->gv_n, REC(S, u));
  }
}

/* two components (t1,d1) <=lex (t2,d2) of active observations: ranks and positions are ordered the same way, lie in
   1..NACT / 1..NTOT, and positions are at least as far apart as ranks (the excluded components in between only add) */
#define COMP_OK(S, t, d) (0 <= (t) && (t) < (S)->gv_n && OACT(S, t) && 0 <= (d) && (d) < ODIM(S, t))
#define RANK(S, t, d) (ACT(S, t) + (d) + 1)
#define PLACE(S, t, d) (POS(S, t) + (d))
void gv_lemma_pair(const struct Cluster *S, int t1, int d1, int t2, int d2)
__CPROVER_requires(WF_CLUSTER(S) && COMP_OK(S, t1, d1) && COMP_OK(S, t2, d2) && (t1 < t2 || (t1 == t2 && d1 <= d2)))
__CPROVER_assigns()
__CPROVER_ensures(1 <= RANK(S, t1, d1) && RANK(S, t1, d1) <= RANK(S, t2, d2) && RANK(S, t2, d2) <= NACT(S))
__CPROVER_ensures(1 <= PLACE(S, t1, d1) && PLACE(S, t1, d1) <= PLACE(S, t2, d2) && PLACE(S, t2, d2) <= NTOT(S))
__CPROVER_ensures(PLACE(S, t2, d2) - PLACE(S, t1, d1) >= RANK(S, t2, d2) - RANK(S, t1, d1))
__CPROVER_ensures((RANK(S, t2, d2) == RANK(S, t1, d1)) == (t1 == t2 && d1 == d2))
{
  GV_CANARY("gv_lemma_pair entry");
  GV_INST(0 <= t1 && t1 < S->gv_n, REC(S, t1));
  GV_INST(0 <= t2 && t2 < S->gv_n, REC(S, t2));
  gv_lemma_range(S, t2 + 1, S->gv_n);
  gv_lemma_range(S, 0, t1);
  if (t1 < t2) { gv_lemma_range(S, t1 + 1, t2); gv_lemma_range(S, t1, t2); }
}

/* ---- stubs of callees (assumed contracts, listed in unit.json "trusted_base") -------------------------------- */
/* Observation::active() and the virtual dimension(): pure reads of the record (check_dimension.py shows that every
   dimension() in the repository returns a literal 1..3) */
static inline _Bool Obs_active(const Observation *o) { return o->active_; }
static inline int Obs_dimension(const Observation *o) { return o->dimension_; }

/* ghost selection of two components (t1,d1) <=lex (t2,d2) of active observations; gv_kX = rank (0: not selected),
   gv_PX = position in the full matrix */
int gv_t1, gv_d1, gv_k1, gv_P1, gv_t2, gv_d2, gv_k2, gv_P2;
int gv_t3, gv_d3, gv_k3, gv_P3; /* ghost component for the forall-introduction of "ind[rank] == position" */
int gv_t0, gv_dm0, gv_b;       /* ghost observation of update(): its flag/dimension before the call; clipped band */
_Bool gv_a0;
Float gv_old;                  /* scaleCov: content of the tracked cell before the call */
int gv_kr;                     /* ghost rank for the forall-introduction of "1 <= ind[k] <= dim" */
int gv_allocs, gv_frees;       /* ghost: new[] / delete[] executed by activeCov */
void *gv_ind_obj;
_Bool gv_freed_same;

#undef GV_NEW
#undef GV_DELETE
#define GV_NEW(T, n) ((T *)gvu_new((size_t)(n) * sizeof(T)))
#define GV_DELETE(p) gvu_delete((void *)(p))
static inline void *gvu_new(size_t bytes)
{
  void *p = malloc(bytes);
  __CPROVER_assume(p != NULL); /* bad_alloc is not handled by gama either (trusted base: malloc never fails) */
  gv_allocs++;
  gv_ind_obj = p;
  return p;
}
static inline void gvu_delete(void *p)
{
  gv_frees++;
  gv_freed_same = (p == gv_ind_obj);
  free(p);
}

/* CovMat(d, b): the class invariant 0 <= b < d (or the empty matrix) is the precondition under which
   units/matvec_index verifies the real accessors; storage is NOT initialised by the real constructor (new Float[]),
   so the tracked cell starts with an arbitrary value and zero writes.  The result tracks cell (gv_k1, gv_k2). */
static inline struct CovMat CovMat_ctor(Index d, Index b)
{
  __CPROVER_assert(0 <= d && 0 <= b && (b < d || (b == 0 && d == 0)), "CovMat(d,b) is constructed with 0 <= b < d (or empty)");
  struct CovMat A;
  A.row_ = d;
  A.band_ = b;
  A.gv_r0 = gv_k1;
  A.gv_c0 = gv_k2;
  A.gv_writes = 0;
  return A;
}

/* Float CovMat::operator()(r,s) const  (covmat.h:128): no range check on r, s -> conforming indices are the CALLER's
   obligation; after ordering r <= s: 0 when s > r + band, else the stored element */
static inline Float CovMat_at_const(const struct CovMat *A, Index r, Index s)
{
  __CPROVER_assert(1 <= r && r <= A->row_ && 1 <= s && s <= A->row_, "const CovMat(r,s): 1 <= r,s <= dim (the accessor does not range-check)");
  Index lo = r > s ? s : r, hi = r > s ? r : s;
  if (hi > lo + A->band_) return 0;
  if (lo == A->gv_r0 && hi == A->gv_c0) return A->gv_cell;
  Float any;
  return any;
}

/* Float& CovMat::operator()(r,s)  (covmat.h:146): throws BadIndex outside the band -> must not happen here */
static inline Float *CovMat_at(struct CovMat *A, Index r, Index s)
{
  __CPROVER_assert(1 <= r && r <= A->row_ && 1 <= s && s <= A->row_, "CovMat(r,s): 1 <= r,s <= dim");
  Index lo = r > s ? s : r, hi = r > s ? r : s;
  __CPROVER_assert(!(hi > lo + A->band_), "CovMat(r,s) is written inside the band (the accessor throws BadIndex outside)");
  if (lo == A->gv_r0 && hi == A->gv_c0) {
    A->gv_writes++;
    return &A->gv_cell;
  }
  return &A->gv_sink;
}

/* selection well-formed (part of the preconditions: the harness chooses it) */
#define SEL_OK(S, t, d, k, P)                                                                            \
  ((k) == 0 || (0 <= (t) && (t) < (S)->gv_n && OACT(S, t) && 0 <= (d) && (d) < ODIM(S, t) &&            \
                (k) == ACT(S, t) + (d) + 1 && (P) == POS(S, t) + (d)))
#define SEL_ORDER ((gv_k1 == 0 || gv_k2 == 0) || gv_t1 < gv_t2 || (gv_t1 == gv_t2 && gv_d1 <= gv_d2))
/* the selected pair is a cell of the result's stored band */
#define INB(band) (gv_k1 >= 1 && gv_k2 >= 1 && gv_k2 - gv_k1 <= (band))

/* harness helper: an arbitrary cluster (any length <= MAXN, any flags, any dimensions -- REC is instantiated at
   the points of use), any covariance matrix shape, any cached counters */
static void mk_cluster(struct Cluster *S)
{
  int n;
  __CPROVER_assume(0 <= n && n <= MAXN);
  S->gv_n = n;
  S->olist = malloc(n * sizeof(Observation));
  int *pos = malloc(((size_t)n + 1) * sizeof(int)), *act = malloc(((size_t)n + 1) * sizeof(int)),
      *cnt = malloc(((size_t)n + 1) * sizeof(int));
  __CPROVER_assume(S->olist && pos && act && cnt);
  __CPROVER_assume(pos[0] == 1 && act[0] == 0 && cnt[0] == 0);
  S->gv_pos = pos; S->gv_act = act; S->gv_cnt = cnt;
  __CPROVER_assume(WF_COV(&S->covariance_matrix));
}

/* harness helper: select two components (or none) */
static void mk_selection(struct Cluster *S)
{
  int t1, d1, t2, d2;
  _Bool s1, s2;
  gv_t1 = t1; gv_d1 = d1; gv_t2 = t2; gv_d2 = d2;
  gv_k1 = gv_k2 = gv_P1 = gv_P2 = 0;
  if (s1) {
    __CPROVER_assume(0 <= t1 && t1 < S->gv_n && OACT(S, t1) && 0 <= d1 && d1 < ODIM(S, t1));
    gv_k1 = ACT(S, t1) + d1 + 1;
    gv_P1 = POS(S, t1) + d1;
  }
  if (s2) {
    __CPROVER_assume(0 <= t2 && t2 < S->gv_n && OACT(S, t2) && 0 <= d2 && d2 < ODIM(S, t2));
    gv_k2 = ACT(S, t2) + d2 + 1;
    gv_P2 = POS(S, t2) + d2;
  }
  __CPROVER_assume(SEL_ORDER);
  /* the source matrix is tracked at the positions of the selected pair */
  S->covariance_matrix.gv_r0 = gv_P1;
  S->covariance_matrix.gv_c0 = gv_P2;
}
//@ end

/* ------------------------------------------------------------------------------------------------------------ */
/* trivial getters (real bodies) */
//@ contract Cluster_activeObs
__CPROVER_requires(__CPROVER_r_ok(self, sizeof(struct Cluster)))
__CPROVER_assigns()
__CPROVER_ensures(__CPROVER_return_value == self->act_obs)
//@ entry Cluster_activeObs
GV_CANARY("Cluster_activeObs entry");
//@ contract Cluster_activeDim
__CPROVER_requires(__CPROVER_r_ok(self, sizeof(struct Cluster)))
__CPROVER_assigns()
__CPROVER_ensures(__CPROVER_return_value == self->act_dim)
//@ entry Cluster_activeDim
GV_CANARY("Cluster_activeDim entry");
//@ contract Cluster_activeNonz
__CPROVER_requires(__CPROVER_r_ok(self, sizeof(struct Cluster)))
__CPROVER_assigns()
__CPROVER_ensures(__CPROVER_return_value == self->act_nonz)
//@ entry Cluster_activeNonz
GV_CANARY("Cluster_activeNonz entry");
//@ end

/* ------------------------------------------------------------------------------------------------------------ */
/* update(): afterwards the cached counters describe the CURRENT list:
     act_obs = number of active observations, act_dim = sum of their dimensions (=> FRESH),
     act_nonz = 0 for an empty selection, else the value of the repository's expression evaluated with
                b = gv_b = min(band, act_dim-1) (ghost copy taken immediately before the assignment) without overflow;
                that this expression IS the element count d(b+1) - b(b+1)/2 of CovMat(act_dim, b) -- the count the
                CovMat constructor allocates -- is proved over mathematical integers by check `lemmas` (z3) on the
                extracted text (two copies of a symbolic product in one CBMC formula: 12 s -> 195 s, measured);
   every observation is bound to the cluster with its list index; flags and dimensions are not touched (so the
   prefix-sum table still describes the list: gv_t0 is an arbitrary ghost observation).                         */
//@ contract Cluster_update
__CPROVER_requires(WF_CLUSTER(self))
__CPROVER_requires(NTOT(self) <= MAXD && self->covariance_matrix.band_ < MAXD)
__CPROVER_requires(0 <= gv_t0 && gv_t0 < self->gv_n ==> (OACT(self, gv_t0) == gv_a0 && ODIM(self, gv_t0) == gv_dm0))
__CPROVER_assigns(self->act_obs, self->act_dim, self->act_nonz, gv_b, __CPROVER_object_whole(self->olist))
__CPROVER_ensures(self->act_obs == NCNT(self) && self->act_dim == NACT(self))
__CPROVER_ensures(self->act_dim == 0 ==> self->act_nonz == 0)
__CPROVER_ensures(self->act_dim > 0 ==> (gv_b == GV_MIN(self->covariance_matrix.band_, self->act_dim - 1)))
__CPROVER_ensures(0 <= gv_t0 && gv_t0 < self->gv_n ==>
                  (OACT(self, gv_t0) == gv_a0 && ODIM(self, gv_t0) == gv_dm0 && self->olist[gv_t0].cluster == self &&
                   self->olist[gv_t0].cluster_index == gv_t0))
//@ entry Cluster_update
GV_CANARY("Cluster_update entry");
//@ loop Cluster_update 1
__CPROVER_assigns(i, index, p, self->act_obs, self->act_dim, __CPROVER_object_whole(self->olist))
__CPROVER_loop_invariant(0 <= i && i <= self->gv_n && index == i && self->act_obs == CNT(self, i) &&
                         self->act_dim == ACT(self, i) && self->act_nonz == 0 &&
                         (0 <= gv_t0 && gv_t0 < self->gv_n ==>
                          (OACT(self, gv_t0) == gv_a0 && ODIM(self, gv_t0) == gv_dm0 &&
                           (gv_t0 < i ==> (self->olist[gv_t0].cluster == self && self->olist[gv_t0].cluster_index == gv_t0)))))
__CPROVER_decreases(self->gv_n - i)
//@ head Cluster_update 1
/* REC(i) on the CURRENT records: the loop does not touch flags or dimensions of ANY record (invariant above, proved
   for the arbitrary ghost record gv_t0), so the recurrence stated for the initial list still holds */
#pragma CPROVER check push
#pragma CPROVER check disable "signed-overflow"
#pragma CPROVER check disable "pointer"
#pragma CPROVER check disable "bounds"
#pragma CPROVER check disable "conversion"
#pragma CPROVER check disable "pointer-primitive"
GV_INST(0 <= i && i < self->gv_n, REC(self, i));
gv_lemma_abs(self, i);
#pragma CPROVER check pop
//@ post Cluster_update 1
gv_lemma_abs(self, self->gv_n);
//@ at Cluster_update nonz
gv_b = b;
//@ end

/* ------------------------------------------------------------------------------------------------------------ */
/* activeCov(): the sub-matrix of the active components.
   Precondition: the covariance matrix has the dimension of the cluster (C10: a mismatch is refused by the parser).
   NOTHING is required of the cached counters act_obs / act_dim / act_nonz (since /repo e3f0492 the function counts the
   active dimension from the list it walks): the harness leaves them arbitrary, so every history  update(); <any
   number of set_active()/set_passive()/list edits without update()>; activeCov()  is covered, and the result is the
   sub-matrix of the CURRENT active set.  (The former check api_stale, which failed on the unrepaired tree, is
   subsumed: its state after update(); flip is one of the states quantified over here.)
   Postconditions, for an ARBITRARY pair of components (t1,d1) <= (t2,d2) of active observations (ghost selection),
   with ranks k1 <= k2 and positions P1 <= P2:
     (3a) result dimension  = LIVE sum of the dimensions of the active observations (whatever act_dim says), band = min(band, N-1), 0 if N == 0;
     (3b) if k2-k1 <= result band: result(k1,k2) was written exactly once and holds full(P1,P2);
     (4)  if k2-k1 >  result band: P2-P1 > full band, i.e. full(P1,P2) is a structural zero: nothing is lost;
     (5)  exactly one new[] and one delete[], of the same block; the cluster itself is not modified (assigns).
   (1), (2) are obligations inside the body: every ind[] access in bounds, ind strictly increasing, and at every
   write ind[rank of (i,d)] == position of (i,d).
   The ghost selections never flow into the program, so the obligations are split over three runs of the same
   contract (harness h_activeCov, -DGV_SEL): activeCov_ind (arbitrary rank gv_kr: 1 <= ind[k] <= dim for ALL k,
   memory safety, (2), (3a), (5)), activeCov_pos (arbitrary component gv_t3,gv_d3: ind[rank] == position for ALL
   components, i.e. not overwritten later), activeCov_cell (arbitrary pair: (3b), (4); uses the two forall facts
   by instantiation).                                                                                           */
//@ contract Cluster_activeCov
__CPROVER_requires(WF_CLUSTER(self))
__CPROVER_requires(self->covariance_matrix.row_ == NTOT(self))
__CPROVER_requires(SEL_OK(self, gv_t1, gv_d1, gv_k1, gv_P1) && SEL_OK(self, gv_t2, gv_d2, gv_k2, gv_P2) && SEL_ORDER)
__CPROVER_requires(SEL_OK(self, gv_t3, gv_d3, gv_k3, gv_P3))
__CPROVER_requires(self->covariance_matrix.gv_r0 == gv_P1 && self->covariance_matrix.gv_c0 == gv_P2)
__CPROVER_requires(gv_allocs == 0 && gv_frees == 0)
__CPROVER_assigns(gv_allocs, gv_frees, gv_ind_obj, gv_freed_same)
__CPROVER_ensures(__CPROVER_return_value.row_ == NACT(self))
__CPROVER_ensures(__CPROVER_return_value.band_ ==
                  (NACT(self) == 0 ? 0 : GV_MIN(self->covariance_matrix.band_, NACT(self) - 1)))
__CPROVER_ensures(INB(__CPROVER_return_value.band_) ==>
                  (__CPROVER_return_value.gv_writes == 1 &&
                   SAMEVAL(__CPROVER_return_value.gv_cell, FULL_TRACKED(&self->covariance_matrix))))
__CPROVER_ensures((gv_k1 >= 1 && gv_k2 >= 1 && gv_k2 - gv_k1 > __CPROVER_return_value.band_) ==>
                  gv_P2 - gv_P1 > self->covariance_matrix.band_)
__CPROVER_ensures((gv_k1 >= 1 && gv_k2 >= 1) ==> (gv_k1 <= gv_k2 && gv_k2 <= NACT(self) && gv_P1 <= gv_P2 &&
                                                 gv_P2 - gv_P1 >= gv_k2 - gv_k1))
__CPROVER_ensures(gv_allocs == 1 && gv_frees == 1 && gv_freed_same)
//@ entry Cluster_activeCov
GV_CANARY("Cluster_activeCov entry");
/* ghost: lemma instances for the selected components (pure facts about the prefix-sum table) */
#pragma CPROVER check push
#pragma CPROVER check disable "signed-overflow"
#pragma CPROVER check disable "pointer"
#pragma CPROVER check disable "bounds"
#pragma CPROVER check disable "conversion"
#pragma CPROVER check disable "pointer-primitive"
gv_lemma_abs(self, self->gv_n);
if (gv_k3) { GV_INST(0 <= gv_t3 && gv_t3 < self->gv_n, REC(self, gv_t3)); gv_lemma_range(self, gv_t3 + 1, self->gv_n); }
if (gv_k1 && gv_k2) gv_lemma_pair(self, gv_t1, gv_d1, gv_t2, gv_d2);
#pragma CPROVER check pop

//@ loop Cluster_activeCov 1
__CPROVER_assigns(i, N)
__CPROVER_loop_invariant(0 <= i && i <= e && e == self->gv_n && N == ACT(self, i))
__CPROVER_decreases(e - i)
//@ head Cluster_activeCov 1
#pragma CPROVER check push
#pragma CPROVER check disable "signed-overflow"
#pragma CPROVER check disable "pointer"
#pragma CPROVER check disable "bounds"
#pragma CPROVER check disable "conversion"
#pragma CPROVER check disable "pointer-primitive"
GV_INST(0 <= i && i < self->gv_n, REC(self, i));
gv_lemma_abs(self, i);
#pragma CPROVER check pop
//@ post Cluster_activeCov 1
__CPROVER_assert(N == NACT(self), "the counting loop yields the LIVE sum of the dimensions of the active observations");
//@ loop Cluster_activeCov 2
__CPROVER_assigns(i, k, n, __CPROVER_object_whole(ind))
__CPROVER_loop_invariant(0 <= i && i <= e && e == self->gv_n && 1 <= k && k <= N + 1 &&
                         n == POS(self, i) && k - 1 == ACT(self, i) &&
                         (k > 1 ==> (1 <= ind[k - 1] && ind[k - 1] < n)) &&
                         ((1 <= gv_kr && gv_kr < k) ==> (1 <= ind[gv_kr] && ind[gv_kr] <= NTOT(self))) &&
                         ((gv_k3 >= 1 && gv_t3 < i) ==> ind[gv_k3] == gv_P3))
__CPROVER_decreases(e - i)
//@ head Cluster_activeCov 2
#pragma CPROVER check push
#pragma CPROVER check disable "signed-overflow"
#pragma CPROVER check disable "pointer"
#pragma CPROVER check disable "bounds"
#pragma CPROVER check disable "conversion"
#pragma CPROVER check disable "pointer-primitive"
GV_INST(0 <= i && i < self->gv_n, REC(self, i));
gv_lemma_range(self, i + 1, self->gv_n);
gv_lemma_abs(self, i);
if (gv_k3 && gv_t3 < i) gv_lemma_range(self, gv_t3 + 1, i);
#pragma CPROVER check pop
//@ loop Cluster_activeCov 3
__CPROVER_assigns(d, k, __CPROVER_object_whole(ind))
__CPROVER_loop_invariant(0 <= d && d <= ODIM(self, i) && 1 <= k && k <= N + 1 && k - 1 - d == ACT(self, i) &&
                         (k > 1 ==> (1 <= ind[k - 1] && ind[k - 1] < n + d)) &&
                         ((1 <= gv_kr && gv_kr < k) ==> (1 <= ind[gv_kr] && ind[gv_kr] <= NTOT(self))) &&
                         ((gv_k3 >= 1 && (gv_t3 < i || (gv_t3 == i && gv_d3 < d))) ==> ind[gv_k3] == gv_P3))
__CPROVER_decreases(ODIM(self, i) - d)
//@ tail Cluster_activeCov 3
__CPROVER_assert(k - 1 == 1 || ind[k - 1] > ind[k - 2], "(2) ind[] is strictly increasing");
__CPROVER_assert(ind[k - 1] == POS(self, i) + (d) && k - 1 == ACT(self, i) + (d) + 1,
                 "(2) ind[rank of component (i,d)] == position of component (i,d)");
//@ post Cluster_activeCov 2
__CPROVER_assert(k == N + 1 && n == NTOT(self) + 1, "all active components were numbered: k-1 == N");
__CPROVER_assert((1 <= gv_kr && gv_kr <= N) ==> (1 <= ind[gv_kr] && ind[gv_kr] <= self->covariance_matrix.row_),
                 "forall-introduction (arbitrary ghost rank gv_kr): 1 <= ind[k] <= dim of the full matrix");
__CPROVER_assert(gv_k3 >= 1 ==> ind[gv_k3] == gv_P3,
                 "forall-introduction (arbitrary ghost component gv_t3,gv_d3 of an active observation): ind[rank] == position");
/* forall-elimination of the fact just proved, at the two selected components */
GV_INST(gv_k1 == 0 || (1 <= gv_k1 && gv_k1 <= N), gv_k1 == 0 || ind[gv_k1] == gv_P1);
GV_INST(gv_k2 == 0 || (1 <= gv_k2 && gv_k2 <= N), gv_k2 == 0 || ind[gv_k2] == gv_P2);
//@ loop Cluster_activeCov 4
__CPROVER_assigns(i, C.gv_cell, C.gv_sink, C.gv_writes)
__CPROVER_loop_invariant(1 <= i && i <= N + 1 &&
                         C.gv_writes == ((INB(active_band) && gv_k1 < i) ? 1 : 0) &&
                         ((INB(active_band) && gv_k1 < i) ==> SAMEVAL(C.gv_cell, FULL_TRACKED(&self->covariance_matrix))))
__CPROVER_decreases(N + 1 - i)
//@ loop Cluster_activeCov 5
__CPROVER_assigns(j, C.gv_cell, C.gv_sink, C.gv_writes)
__CPROVER_loop_invariant(0 <= j && j <= active_band + 1 && i + j <= N + 1 &&
                         C.gv_writes == ((INB(active_band) && (gv_k1 < i || (gv_k1 == i && gv_k2 - gv_k1 < j))) ? 1 : 0) &&
                         ((INB(active_band) && (gv_k1 < i || (gv_k1 == i && gv_k2 - gv_k1 < j))) ==>
                          SAMEVAL(C.gv_cell, FULL_TRACKED(&self->covariance_matrix))))
__CPROVER_decreases(active_band + 1 - j)
//@ head Cluster_activeCov 5
/* forall-elimination of the fact proved after loop 1 for the arbitrary rank gv_kr; ind[] is not assigned since */
GV_INST(1 <= i && i <= N, 1 <= ind[i] && ind[i] <= self->covariance_matrix.row_);
GV_INST(1 <= i + j && i + j <= N, 1 <= ind[i + j] && ind[i + j] <= self->covariance_matrix.row_);
//@ end

/* ------------------------------------------------------------------------------------------------------------ */
/* scaleCov(p, sc): standard deviation of component p multiplied by sc, i.e. C' = S C S with S = diag(1,..,sc,..,1):
   the diagonal element (p,p) is scaled twice, every other stored element of row/column p once, nothing else is
   touched; all accesses are inside the band and 1..dim.  Tracked cell (r0 <= c0) arbitrary.                    */
//@ contract Cluster_scaleCov
__CPROVER_requires(__CPROVER_rw_ok(self, sizeof(struct Cluster)) && WF_COV(&self->covariance_matrix))
__CPROVER_requires(self->covariance_matrix.row_ <= 3 * MAXN)
__CPROVER_requires(1 <= p && p <= self->covariance_matrix.row_)
__CPROVER_requires(self->covariance_matrix.gv_writes == 0 && self->covariance_matrix.gv_cell == gv_old)
__CPROVER_requires(1 <= self->covariance_matrix.gv_r0 && self->covariance_matrix.gv_r0 <= self->covariance_matrix.gv_c0 &&
                   self->covariance_matrix.gv_c0 <= self->covariance_matrix.row_ &&
                   self->covariance_matrix.gv_c0 - self->covariance_matrix.gv_r0 <= self->covariance_matrix.band_)
__CPROVER_assigns(self->covariance_matrix.gv_cell, self->covariance_matrix.gv_sink, self->covariance_matrix.gv_writes)
__CPROVER_ensures(self->covariance_matrix.gv_writes ==
                  ((self->covariance_matrix.gv_r0 == p ? 1 : 0) + (self->covariance_matrix.gv_c0 == p ? 1 : 0)))
__CPROVER_ensures(self->covariance_matrix.gv_writes == 0 ==> SAMEVAL(self->covariance_matrix.gv_cell, gv_old))
//@ entry Cluster_scaleCov
GV_CANARY("Cluster_scaleCov entry");
//@ loop Cluster_scaleCov 1
__CPROVER_assigns(i, self->covariance_matrix.gv_cell, self->covariance_matrix.gv_sink, self->covariance_matrix.gv_writes)
__CPROVER_loop_invariant(q <= i && i <= k + 1 &&
                         self->covariance_matrix.gv_writes ==
                           ((self->covariance_matrix.gv_r0 == p && self->covariance_matrix.gv_c0 == p) ? 1 : 0) +
                           (((self->covariance_matrix.gv_r0 == p && self->covariance_matrix.gv_c0 < i) ||
                             (self->covariance_matrix.gv_c0 == p && self->covariance_matrix.gv_r0 < i)) ? 1 : 0) &&
                         (self->covariance_matrix.gv_writes == 0 ==> SAMEVAL(self->covariance_matrix.gv_cell, gv_old)))
__CPROVER_decreases(k + 1 - i)
//@ end

/* ------------------------------------------------------------------------------------------------------------ */
//@ entry CovMat_dim
//@ entry CovMat_bandWidth
//@ end

//@ harness
void h_lemma_abs(void)
{
  struct Cluster S;
  mk_cluster(&S);
  int t;
  __CPROVER_assume(0 <= t && t <= S.gv_n);
  gv_lemma_abs(&S, t);
  GV_CANARY("h_lemma_abs end");
}

void h_lemma_range(void)
{
  struct Cluster S;
  mk_cluster(&S);
  int s, t;
  __CPROVER_assume(0 <= s && s <= t && t <= S.gv_n);
  gv_lemma_range(&S, s, t);
  GV_CANARY("h_lemma_range end");
}

void h_lemma_pair(void)
{
  struct Cluster S;
  mk_cluster(&S);
  int t1, d1, t2, d2;
  __CPROVER_assume(COMP_OK(&S, t1, d1) && COMP_OK(&S, t2, d2) && (t1 < t2 || (t1 == t2 && d1 <= d2)));
  gv_lemma_pair(&S, t1, d1, t2, d2);
  GV_CANARY("h_lemma_pair end");
}

void h_getters(void)
{
  struct Cluster S;
  mk_cluster(&S);
  int a = Cluster_activeObs(&S), b = Cluster_activeDim(&S), c = Cluster_activeNonz(&S);
  __CPROVER_assert(a == S.act_obs && b == S.act_dim && c == S.act_nonz, "getters return the cached counters");
  GV_CANARY("h_getters end");
}

void h_update(void)
{
  struct Cluster S;
  mk_cluster(&S);
  __CPROVER_assume(NTOT(&S) <= MAXD && S.covariance_matrix.band_ < MAXD);
  int t0;
  gv_t0 = t0;
  if (0 <= t0 && t0 < S.gv_n) { gv_a0 = OACT(&S, t0); gv_dm0 = ODIM(&S, t0); }
  Cluster_update(&S);
  __CPROVER_assert(FRESH(&S), "update(): afterwards act_dim is current (FRESH)");
  GV_CANARY("h_update end");
}

void h_activeCov(void)
{
  struct Cluster S;
  mk_cluster(&S);
  mk_selection(&S);
  __CPROVER_assume(S.covariance_matrix.row_ == NTOT(&S)); /* the cov-mat has the dimension of the cluster */
  /* act_obs, act_dim, act_nonz stay ARBITRARY: activeCov() must not depend on the cached counters */
  int w_act_dim = S.act_dim, w_n = S.gv_n;
  int kr;
  gv_kr = kr;                                             /* unconstrained: forall-introduction           */
  int t3, d3;
  gv_t3 = t3; gv_d3 = d3; gv_k3 = 0; gv_P3 = 0;
  /* The ghost selections never flow into the program, so the obligations may be split over three runs: */
#if GV_SEL == 0   /* part ind: arbitrary rank gv_kr (1 <= ind[k] <= dim), no component selected */
  __CPROVER_assume(gv_k1 == 0 && gv_k2 == 0);
#elif GV_SEL == 2 /* part pos: an arbitrary component (t3,d3) of an active observation: ind[rank] == position */
  __CPROVER_assume(gv_k1 == 0 && gv_k2 == 0);
  gv_kr = 0;
  __CPROVER_assume(0 <= t3 && t3 < S.gv_n && OACT(&S, t3) && 0 <= d3 && d3 < ODIM(&S, t3));
  gv_k3 = ACT(&S, t3) + d3 + 1;
  gv_P3 = POS(&S, t3) + d3;
#elif GV_SEL == 1 /* part cell: an arbitrary pair of components; uses the facts proved in parts ind and pos */
  __CPROVER_assume(gv_k1 >= 1 && gv_k2 >= 1);
  gv_kr = 0;
#endif
  gv_allocs = gv_frees = 0;
  struct CovMat C = Cluster_activeCov(&S);
  GV_CANARY("h_activeCov end");
}

void h_scaleCov(void)
{
  struct Cluster S;
  S.olist = NULL; S.gv_n = 0; S.gv_pos = S.gv_act = S.gv_cnt = NULL;
  __CPROVER_assume(WF_COV(&S.covariance_matrix) && S.covariance_matrix.row_ <= 3 * MAXN);
  int p;
  Float sc;
  __CPROVER_assume(1 <= p && p <= S.covariance_matrix.row_);
  __CPROVER_assume(1 <= S.covariance_matrix.gv_r0 && S.covariance_matrix.gv_r0 <= S.covariance_matrix.gv_c0 &&
                   S.covariance_matrix.gv_c0 <= S.covariance_matrix.row_ &&
                   S.covariance_matrix.gv_c0 - S.covariance_matrix.gv_r0 <= S.covariance_matrix.band_);
  S.covariance_matrix.gv_writes = 0;
  gv_old = S.covariance_matrix.gv_cell;
  Cluster_scaleCov(&S, p, sc);
  GV_CANARY("h_scaleCov end");
}

//@ end
