// Native demonstration for unit cluster_activecov (C10), check api_stale: Cluster::activeCov() sizes ind[] from the
// CACHED act_dim (set by the last update()) but walks the LIVE observation list.
// Build (needs the compiled library objects, e.g. of /repo/_build):
//   ar rcs /tmp/libgama_objs.a $(find /repo/_build/CMakeFiles/libgama.dir -name '*.o')
//   g++ -std=c++14 -g -O0 -fsanitize=address -I/repo/lib native_demo.cpp /tmp/libgama_objs.a -lexpat -o demo
//   ./demo 1   all 6 directions passive at update(), then set_active() on all, no update():
//              AddressSanitizer heap-buffer-overflow WRITE obsdata.h:363 (ind[k++]), block of 4 bytes from obsdata.h:351
//   ./demo 2   cluster never updated (act_dim == 0 from the constructor; what SqliteReader leaves until
//              LocalNetwork::revision_observations runs): same overflow
//   ./demo 3   update() with all active, then set_passive() on one, no update(): ind[6] is read uninitialised ->
//              SEGV READ in CovMat::operator()(int,int) const, covmat.h:139, called from obsdata.h:371
// (header-only replay without a sanitizer: replay.cpp of this unit, guard words behind every new[] block)
#include <gnu_gama/local/cluster.h>
#include <gnu_gama/local/observation.h>
#include <cstdio>
using namespace GNU_gama::local;
int main(int argc, char** argv)
{
  int scenario = argc > 1 ? atoi(argv[1]) : 1;
  ObservationData od;
  StandPoint* sp = new StandPoint(&od);
  od.clusters.push_back(sp);
  const int n = 6;
  for (int i = 0; i < n; i++) sp->observation_list.push_back(new Direction("A", "B", 1.0 + i));
  sp->covariance_matrix.reset(n, 0);
  for (int i = 1; i <= n; i++) sp->covariance_matrix(i, i) = i;
  if (scenario == 1) {
    // all observations excluded, update(), then all included again (public Observation::set_active), no update()
    for (auto o : sp->observation_list) o->set_passive();
    sp->update();
    std::printf("after update(): activeDim() = %d\n", sp->activeDim());
    for (auto o : sp->observation_list) o->set_active();
    CovMat C = sp->activeCov();      // ind = new int[0+1]; writes ind[1..6]
    std::printf("activeCov(): dim %d (6 observations are active)\n", C.dim());
  } else if (scenario == 2) {
    // never updated cluster (what SqliteReader leaves behind): act_dim == 0 from the constructor
    CovMat C = sp->activeCov();
    std::printf("activeCov(): dim %d (6 observations are active)\n", C.dim());
  } else {
    // stale the other way: update() with all active, then one observation excluded, no update()
    sp->update();
    sp->observation_list.front()->set_passive();
    CovMat C = sp->activeCov();      // N = 6 but only ind[1..5] are written; ind[6] is read uninitialised
    std::printf("activeCov(): dim %d (5 observations are active); C(6,6) = %g\n", C.dim(), C(6,6));
  }
  return 0;
}
