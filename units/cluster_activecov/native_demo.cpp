// Native REGRESSION demonstration for unit cluster_activecov (C10).  Before /repo e3f0492 Cluster::activeCov() sized
// ind[] from the CACHED act_dim (set by the last update()) but walked the LIVE observation list:
//   ./demo 1   all 6 directions passive at update(), then set_active() on all, no update():
//              was AddressSanitizer heap-buffer-overflow WRITE obsdata.h:363 (ind[k++]); now "dim 6"
//   ./demo 2   cluster never updated (act_dim == 0 from the constructor): was the same overflow; now "dim 6"
//   ./demo 3   update() with all active, then set_passive() on one, no update(): was SEGV READ in
//              CovMat::operator()(int,int) const (ind[6] uninitialised); now "dim 5", C(5,5) = 6
// Build (needs the compiled library objects, e.g. of /repo/_build):
//   ar rcs /tmp/libgama_objs.a $(find /repo/_build/CMakeFiles/libgama.dir -name '*.o')
//   g++ -std=c++14 -g -O0 -fsanitize=address -I/repo/lib native_demo.cpp /tmp/libgama_objs.a -lexpat -o demo
// (header-only regression without a sanitizer: replay.cpp of this unit, guard words behind every new[] block)
#include <gnu_gama/local/cluster.h>
#include <gnu_gama/local/observation.h>
#include <cstdio>
using namespace GNU_gama::local;
int main(int argc, char** argv)
{
  int scenario = argc > 1 ? atoi(argv[1]) : 1;
  ObservationData od;
  StandPoint* sp = new StandPoint(&od);
  od.clusters.push_back(sp);
  const int n = 6;
  for (int i = 0; i < n; i++) sp->observation_list.push_back(new Direction("A", "B", 1.0 + i));
  sp->covariance_matrix.reset(n, 0);
  for (int i = 1; i <= n; i++) sp->covariance_matrix(i, i) = i;
  if (scenario == 1) {
    // all observations excluded, update(), then all included again (public Observation::set_active), no update()
    for (auto o : sp->observation_list) o->set_passive();
    sp->update();
    std::printf("after update(): activeDim() = %d\n", sp->activeDim());
    for (auto o : sp->observation_list) o->set_active();
    CovMat C = sp->activeCov();      // before the repair: ind = new int[0+1]; writes ind[1..6]
    std::printf("activeCov(): dim %d (6 observations are active)\n", C.dim());
  } else if (scenario == 2) {
    // never updated cluster (what SqliteReader leaves behind): act_dim == 0 from the constructor
    CovMat C = sp->activeCov();
    std::printf("activeCov(): dim %d (6 observations are active)\n", C.dim());
  } else {
    // stale the other way: update() with all active, then one observation excluded, no update()
    sp->update();
    sp->observation_list.front()->set_passive();
    CovMat C = sp->activeCov();      // before the repair: N = 6 but only ind[1..5] written
    std::printf("activeCov(): dim %d (5 observations are active); C(5,5) = %g (expected 6)\n", C.dim(), C(5,5));
  }
  return 0;
}
