#!/usr/bin/env python3
"""z3 part of unit cluster_activecov (check "lemmas"):  usage  python3-vt lemmas.py <generated C file> <repo>

CBMC cannot compare two copies of a product of symbolic ints (measured here: 12 s -> 195 s, and it needs the
dimension bound).  The VALUE of act_nonz is therefore specified and proved over mathematical integers:

  nonz_is_covmat_size   the expression that Cluster::update() assigns to act_nonz (taken from the EXTRACTED text of this
                        run: `self->act_nonz = <E>;`, immediately after the injected ghost `gv_b = b;`) equals, for
                        act_dim = d and 0 <= b < d, the element count that the CovMat(d,b) constructor allocates
                        (taken from lib/matvec/covmat.h of this run: `MatBase<Float, Index, Exc>(d,d,<S>)`),
  reset_is_ctor_size    CovMat::reset(d,b) resizes to the same count,
  size_positive         that count is >= d >= 1 (one diagonal element per row), and <= d*(b+1).

What b is (min(band, act_dim-1)) and that the machine evaluation of <E> does not overflow are CBMC obligations of check
`update` (postcondition on gv_b; signed-overflow checks under the stated bound).  Every `/` produces the side condition
"dividend >= 0 and divisor > 0", proved too, so that C's truncating division is the mathematical one here.
Exit 0 all proved, 1 some failed, 2 text not understood.
"""
import ast
import re
import sys

import z3


class Bad(Exception):
    pass


def to_z3(src, env, sides):
    def ev(n):
        if isinstance(n, ast.Expression):
            return ev(n.body)
        if isinstance(n, ast.Constant) and isinstance(n.value, int):
            return z3.IntVal(n.value)
        if isinstance(n, ast.Name):
            if n.id not in env:
                raise Bad('unknown identifier %r in %r' % (n.id, src))
            return env[n.id]
        if isinstance(n, ast.UnaryOp) and isinstance(n.op, ast.USub):
            return -ev(n.operand)
        if isinstance(n, ast.BinOp):
            a, b = ev(n.left), ev(n.right)
            if isinstance(n.op, ast.Add):
                return a + b
            if isinstance(n.op, ast.Sub):
                return a - b
            if isinstance(n.op, ast.Mult):
                return a * b
            if isinstance(n.op, ast.Div):
                sides.append(z3.And(a >= 0, b > 0))
                return a / b
        raise Bad('operator outside the translated subset in %r' % src)
    try:
        tree = ast.parse(src.strip(), mode='eval')
    except SyntaxError:
        raise Bad('cannot parse %r' % src)
    return ev(tree)


def prove(name, hyp, goal):
    s = z3.Solver()
    s.add(hyp, z3.Not(goal))
    r = s.check()
    if r == z3.unsat:
        print('LEMMA %s: proved' % name)
        return True
    print('LEMMA %s: FAILED %s' % (name, s.model() if r == z3.sat else 'unknown'))
    return False


def main():
    cfile, repo = sys.argv[1], sys.argv[2]
    ctext = open(cfile).read()
    m = re.search(r'void Cluster_update\(struct Cluster\* self\)(.*?)\n/\* ---- ', ctext, re.S)
    if not m:
        raise Bad('Cluster_update not found in the generated file')
    body = m.group(1)
    mm = re.findall(r'gv_b = b;\s*self->act_nonz\s*=\s*([^;]+);', body)
    if len(mm) != 1:
        raise Bad('`gv_b = b; self->act_nonz = <E>;` found %d times in the extracted update()' % len(mm))
    e_update = mm[0].replace('self->act_dim', 'd')
    cov = open(repo + '/lib/matvec/covmat.h').read()
    c1 = re.findall(r'MatBase<Float, Index, Exc>\(d,\s*d,\s*([^{}]*?)\),\s*band_\(b\)', cov)
    c2 = re.findall(r'this->resize\(([^;]*d[^;]*)\);', cov)
    if len(c1) != 1 or len(c2) != 1:
        raise Bad('CovMat(d,b) / reset(d,b) size expressions not found exactly once in covmat.h')
    d, b = z3.Ints('d b')
    env = {'d': d, 'b': b}
    hyp = z3.And(0 <= b, b < d)
    ok = True
    sides = []
    E = to_z3(e_update, env, sides)
    S = to_z3(c1[0], env, sides)
    R = to_z3(c2[0], env, sides)
    ok &= prove('division_side_conditions', hyp, z3.And(sides) if sides else z3.BoolVal(True))
    ok &= prove('nonz_is_covmat_size', hyp, E == S)
    ok &= prove('reset_is_ctor_size', hyp, R == S)
    ok &= prove('size_positive', hyp, z3.And(S >= d, d >= 1, S <= d * (b + 1)))
    return 0 if ok else 1


if __name__ == '__main__':
    try:
        sys.exit(main())
    except Bad as e:
        print('lemmas.py: ' + str(e))
        sys.exit(2)
