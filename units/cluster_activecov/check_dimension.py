#!/usr/bin/env python3
"""pre hook of unit cluster_activecov (args: repo, scratch dir).

The stub Obs_dimension() of spec.c assumes that Observation::dimension() is a CONSTANT of the object in 1..3.
This script checks that against the repository: every definition of `dimension() const` under lib/gnu_gama must be
either pure virtual or `{ return <literal 1..3>; }`.  Anything else -> exit 1 (the driver reports an extraction break).
"""
import os
import re
import sys

repo = sys.argv[1]
root = os.path.join(repo, 'lib', 'gnu_gama')
defs = 0
for dp, _, fs in os.walk(root):
    for f in fs:
        if not f.endswith(('.h', '.cpp')):
            continue
        txt = open(os.path.join(dp, f), encoding='utf-8', errors='replace').read()
        txt = re.sub(r'/\*.*?\*/', ' ', txt, flags=re.S)
        txt = re.sub(r'//[^\n]*', ' ', txt)
        for m in re.finditer(r'\bdimension\s*\(\s*\)\s*(const)?\s*(override)?\s*([^;{]*)([;{])', txt):
            pre = txt[max(0, m.start() - 3):m.start()]
            if pre.endswith('->') or pre.endswith('.'):
                continue                      # a call, not a declaration
            if m.group(4) == ';':
                if re.fullmatch(r'\s*=\s*0\s*', m.group(3)):
                    continue                  # pure virtual
                if m.group(3).strip() == '' and not re.search(r'\bint\s+$', txt[max(0, m.start() - 12):m.start()]):
                    continue                  # a call used as a statement/expression
                print('dimension(): declaration without inline body in %s: %r' % (f, m.group(0)))
                sys.exit(1)
            body = txt[m.end():txt.index('}', m.end())]
            mm = re.fullmatch(r'\s*return\s+([123])\s*;\s*', body)
            if not mm:
                print('dimension() in %s is not `return <1..3>;`: %r' % (f, body.strip()[:80]))
                sys.exit(1)
            defs += 1
if defs < 2:
    print('dimension(): only %d definitions found under lib/gnu_gama' % defs)
    sys.exit(1)
print('dimension(): %d definitions, all literal constants in 1..3' % defs)
