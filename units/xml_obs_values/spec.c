/* Sidecar contracts for WriteXMLVisitor::visit(X*, Y*, Z*, Xdiff*, Ydiff*, Zdiff*) (lib/gnu_gama/xml/localnetworkxml.cpp), property C12:
   "the adjustment XML ... carries the same adjustment as the HTML, text and Octave outputs of the same run" and is a faithful
   serialisation: the <adj> value of an observation is the observed value plus its residual, and for a y-type quantity both are
   given in the USER's system, i.e. multiplied by y_sign (the adjustment runs in the mirrored system when axes and angle
   handedness are inconsistent):
        <obs> = s * value          <adj> = s * (value + v(i)/1000)          s = y_sign for Y and dy, 1 otherwise
   so that adjusted dy equals the difference of the adjusted y coordinates printed in the same file.  (A writer that applies the
   sign to the observed value but not to the residual is off by 2*v for y_sign == -1.)
   Each visit prints exactly one <obs> and one <adj>, in this order, after the opening tag and with the linear precision.      */

//@ prelude
#include <stdbool.h>
int gv_exc;
#ifndef XV_Y
#define XV_Y 0
#endif
#ifndef XV_VALUES
#define XV_VALUES 1
#endif
struct Obs { double value_; };
struct WriteXMLVisitor { double y_sign; int i; int linear; int angular; int gv_n; };
int gv_tags, gv_externs, gv_precs, gv_prec_val, gv_ids, gv_nobs, gv_nadj, gv_order_ok, gv_resid_calls;
double gv_obs_printed, gv_adj_printed, gv_value, gv_v;
static void gv_open_tag(const char *t) { (void)t; gv_tags++; }
static void gv_extern_attr(void) { gv_externs++; }
static void gv_precision(int p) { gv_precs++; gv_prec_val = p; }
static void gv_tag_ids(void) { gv_ids++; }
static void gv_print_obs(double x) { gv_order_ok = gv_order_ok && gv_nadj == 0 && gv_tags == 1; gv_nobs++; gv_obs_printed = x; }
static void gv_print_adj(double x) { gv_order_ok = gv_order_ok && gv_nobs == 1; gv_nadj++; gv_adj_printed = x; }
static double gv_obs_value(const struct Obs *o) { (void)o; return gv_value; }
static double gv_resid(const struct WriteXMLVisitor *self, int k)
{
  __CPROVER_assert(k == self->i && 1 <= k && k <= self->gv_n, "the residual read is the one of the observation being written (index set by setObservationIndex, within 1..n)");
  gv_resid_calls++;
  return gv_v;
}
#define SAMEBITS(a, b) (((a) == (b) && __CPROVER_signd(a) == __CPROVER_signd(b)) || ((a) != (a) && (b) != (b)))
#define XV_S(self) (XV_Y ? (self)->y_sign : 1.0)
#define XV_CONTRACT \
__CPROVER_requires(__CPROVER_r_ok(self, sizeof(*self)) && __CPROVER_r_ok(obs, sizeof(*obs))) \
__CPROVER_requires((self->y_sign == 1 || self->y_sign == -1) && 1 <= self->i && self->i <= self->gv_n) \
__CPROVER_requires(gv_tags == 0 && gv_externs == 0 && gv_precs == 0 && gv_ids == 0 && gv_nobs == 0 && gv_nadj == 0 && gv_order_ok == 1 && gv_resid_calls == 0) \
__CPROVER_assigns(gv_tags, gv_externs, gv_precs, gv_prec_val, gv_ids, gv_nobs, gv_nadj, gv_order_ok, gv_resid_calls, gv_obs_printed, gv_adj_printed) \
__CPROVER_ensures(gv_tags == 1 && gv_externs == 1 && gv_ids == 1 && gv_nobs == 1 && gv_nadj == 1 && gv_order_ok == 1 && gv_resid_calls == 1) \
__CPROVER_ensures(gv_precs == 1 && gv_prec_val == self->linear) \
__CPROVER_ensures(!XV_VALUES || (XV_Y ? SAMEBITS(gv_obs_printed, self->y_sign * gv_value) : SAMEBITS(gv_obs_printed, gv_value))) \
__CPROVER_ensures(!XV_VALUES || (XV_Y ? SAMEBITS(gv_adj_printed, self->y_sign * (gv_value + gv_v / 1000)) : SAMEBITS(gv_adj_printed, gv_value + gv_v / 1000)))
//@ end

//@ contract XMLV_visit_X
XV_CONTRACT
//@ entry XMLV_visit_X
GV_CANARY("XMLV_visit_X entry");
//@ contract XMLV_visit_Y
XV_CONTRACT
//@ entry XMLV_visit_Y
GV_CANARY("XMLV_visit_Y entry");
//@ contract XMLV_visit_Z
XV_CONTRACT
//@ entry XMLV_visit_Z
GV_CANARY("XMLV_visit_Z entry");
//@ contract XMLV_visit_Xdiff
XV_CONTRACT
//@ entry XMLV_visit_Xdiff
GV_CANARY("XMLV_visit_Xdiff entry");
//@ contract XMLV_visit_Ydiff
XV_CONTRACT
//@ entry XMLV_visit_Ydiff
GV_CANARY("XMLV_visit_Ydiff entry");
//@ contract XMLV_visit_Zdiff
XV_CONTRACT
//@ entry XMLV_visit_Zdiff
GV_CANARY("XMLV_visit_Zdiff entry");
//@ end

//@ harness
#ifdef XV_SAMPLE
/* checks <fn>_sample: concrete values, so that a wrong sign or factor is reported even where cvc5 cannot refute the symbolic clause */
#define XV_SAMPLE_STATE { _Bool neg; V.y_sign = neg ? -1.0 : 1.0; gv_value = 3.5; gv_v = 250.0; }
#else
#define XV_SAMPLE_STATE
#endif
#define H(name) void h_visit_##name(void) { struct WriteXMLVisitor V; struct Obs o; \
  __CPROVER_assume((V.y_sign == 1 || V.y_sign == -1) && 1 <= V.i && V.i <= V.gv_n); \
  gv_tags = gv_externs = gv_precs = gv_ids = gv_nobs = gv_nadj = gv_resid_calls = 0; gv_order_ok = 1; \
  XV_SAMPLE_STATE \
  XMLV_visit_##name(&V, &o); GV_CANARY("h_visit_" #name " end"); }
H(X) H(Y) H(Z) H(Xdiff) H(Ydiff) H(Zdiff)
//@ end
