// Native replay for unit "linearization": re-creates, through the public API of the real classes (PointData,
// LocalPoint, StandPoint, Direction/Angle/Azimuth/Z_Angle, LocalLinearization), the inputs on which a C05
// obligation fails, and re-evaluates the obligation.  exit 1 = violation reproduces, 0 = does not, 2 = no replay.
//
// The verifier's counterexamples for these findings live in the symbol space of the stubs (sin/cos/atan2/sqrt are
// symbols there), so the replays below construct concrete geometry that realises the same situation instead of
// reading the trace.
#include <cmath>
#include <cstdio>
#include <string>
#include <gnu_gama/local/local_linearization.h>
#include <gnu_gama/local/network.h>
#include "gv_replay.h"

using namespace GNU_gama::local;

// observation.cpp also defines DisplayObservationVisitor, whose only unresolved reference when linking without
// network.cpp is this member; it is never called here.
double GNU_gama::local::LocalNetwork::y_sign() const { return 1; }

// ---- z_angle: a second-face reading (observed > 200 gon) gets the row of the first face ----------------------
static double z_computed_cc(PointData& PD, Z_Angle* z)
{
  LocalLinearization L(PD, 10);
  z->accept(&L);
  return z->value()*R2CC - L.rhs;        // computed observable = observed - (observed - computed)
}

static int z_angle_second_face()
{
  int bad = 0;
  for (int face = 1; face <= 2; face++) {
    PointData PD;
    PD["A"] = LocalPoint(0, 0, 0);    PD["A"].set_free_xy(); PD["A"].set_free_z();
    PD["B"] = LocalPoint(30, 40, 10); PD["B"].set_free_xy(); PD["B"].set_free_z();
    const double zen = std::acos(10/std::sqrt(2600.0));      // zenith angle A->B
    const double obs = face == 1 ? zen : 2*M_PI - zen;       // second face reads 400 gon - z
    Z_Angle za("A", "B", obs);
    LocalLinearization L(PD, 10);
    za.accept(&L);
    const long iz = PD["B"].index_z();
    double cz = 0;
    for (long k = 0; k < L.size; k++) if (L.index[k] == iz) cz = L.coeff[k];
    const double h = 1e-3;                                   // 1 mm
    const double c0 = z_computed_cc(PD, &za);
    PD["B"].set_z(PD["B"].z() + h);
    const double c1 = z_computed_cc(PD, &za);
    const double num = (c1 - c0)/(h*1000);                   // cc per mm
    const bool wrong = std::fabs(cz - num) > 1e-3*std::fabs(num);
    std::printf("z-angle face %d: observed %.6f gon, rhs %.3g cc, d(computed)/d(zB): coefficient %.6f cc/mm, "
                "finite difference %.6f cc/mm%s\n", face, obs*R2G, L.rhs, cz, num, wrong ? "  <-- WRONG SIGN" : "");
    if (wrong) bad = 1;
  }
  std::printf("z_angle(observed > pi): design-matrix row is the negative of d(computed)/dX: %s\n",
              bad ? "POSTCONDITION VIOLATED" : "ok");
  return bad;
}

// ---- angular right-hand sides: both ends of [-200, 200] gon are produced --------------------------------------
static int closed_interval(const std::string& type)
{
  PointData PD;
  PD["A"] = LocalPoint(0, 0);    PD["A"].set_free_xy();
  PD["B"] = LocalPoint(100, 0);  PD["B"].set_free_xy();      // bearing A->B = atan2(0, 100)  = 0
  PD["C"] = LocalPoint(-100, 0); PD["C"].set_free_xy();      // bearing A->C = atan2(0, -100) = pi
  ObservationData od;
  StandPoint* sp = new StandPoint(&od);
  sp->station = "A";
  sp->set_orientation(0);
  Observation *o1, *o2;
  if (type == "direction") {
    o1 = new Direction("A", "B", M_PI);                      // observed pi, computed 0  : +half circle
    o2 = new Direction("A", "C", 0.0);                       // observed 0,  computed pi : -half circle
  } else if (type == "azimuth") {
    o1 = new Azimuth("A", "B", M_PI);                        // default system NE: north angle 0
    o2 = new Azimuth("A", "C", 0.0);
  } else {
    PD["D"] = LocalPoint(200, 0); PD["D"].set_free_xy();     // bearing A->D = 0 as well
    o1 = new Angle("A", "B", "D", M_PI);                     // observed pi, computed 0  : +half circle
    o2 = new Angle("A", "B", "C", 0.0);                      // observed 0,  computed pi : -half circle
  }
  sp->observation_list.push_back(o1);
  sp->observation_list.push_back(o2);
  od.clusters.push_back(sp);
  sp->update();
  LocalLinearization L(PD, 10);
  o1->accept(&L); const double r1 = L.rhs;
  o2->accept(&L); const double r2 = L.rhs;
  std::printf("%s #1 (observed - computed = +pi): rhs = %.17g cc\n", type.c_str(), r1);
  std::printf("%s #2 (observed - computed = -pi): rhs = %.17g cc\n", type.c_str(), r2);
  const bool closed = !(r1 >= -200e4 && r1 < 200e4 && r2 >= -200e4 && r2 < 200e4);
  std::printf("%s: a right-hand side outside the half-open range [-200, 200) gon is produced: %s\n",
              type.c_str(), closed ? "POSTCONDITION VIOLATED" : "ok");
  return closed ? 1 : 0;
}

int main(int argc, char** argv)
{
  if (argc < 3) return 2;
  std::string check = argv[2];
  if (check == "z_angle_val5") return z_angle_second_face();
  if (check == "direction_halfopen" || check == "direction") return closed_interval("direction");
  if (check == "azimuth_halfopen" || check == "azimuth") return closed_interval("azimuth");
  if (check == "angle_halfopen" || check == "angle") return closed_interval("angle");
  std::printf("no native replay for check %s\n", check.c_str());
  return 2;
}
