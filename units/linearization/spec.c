/* Sidecar contracts for lib/gnu_gama/local/local_linearization.cpp (property C05).
   Only contracts, ghost declarations, callee stubs and harnesses live here; every function body -- the thirteen
   LocalLinearization members, the LocalPoint / Observation / StandPoint getters they call, both bearing_distance
   overloads and PointData::xNorthAngle -- is extracted from /repo on every run.

   HAND DERIVATION of the expected design-matrix rows (not read off the code; reviewed against
   doc/gama-local-adj.texi, node "Linearization": b = L - phi(X0), angular rows scaled by 2000/pi = 10*R2G,
   corrections to coordinates in mm, to angular quantities in cc; the document gives no per-type formulas).

   Notation: F = from/stand point, T = to/target point; dx = xT-xF, dy = yT-yF, dz = zT-zF;
   d = sqrt(dx^2+dy^2) (horizontal), sd = sqrt(dx^2+dy^2+dz^2) (slope); gama's bearing s = atan2(dy,dx)
   (angle from +x towards +y, mapped to [0,2pi)), hence dy = d sin s, dx = d cos s; S = sin s, C = cos s.
   Unit factors: coordinates corrections are in mm, so a length observable [mm] has factor 1 per unit of
   d(phi)/d(coord); an angle observable [cc] has (200e4/pi cc/rad) / (1000 mm/m) = 2000/pi = 10*R2G per metre^-1.

     distance     phi = d                d/dyT = dy/d = S      d/dxT = dx/d = C      F: negatives
     direction    phi = s - o            d/dyT = dx/d^2 = C/d  d/dxT = -dy/d^2 = -S/d  F: negatives   d/do = -1
                  -> K = 10*R2G/d:       yT: +K C   xT: -K S   yF: -K C   xF: +K S   o: -1 (cc/cc)
     azimuth      phi = s - N (N = bearing of north, constant)   same as direction without o
     angle        phi = s2 - s1 (bs = 1, fs = 2)  fs: y +K2 C2, x -K2 S2;  bs: y -K1 C1, x +K1 S1;
                                         F: y -K2 C2 + K1 C1,  x +K2 S2 - K1 S1
     h_diff       phi = zT - zF          zT: +1   zF: -1
     s_distance   phi = sd               d/dxT = dx/sd, d/dyT = dy/sd, d/dzT = dz/sd   F: negatives
     z_angle      phi = acos(dz/sd); with u = dz/sd, sqrt(1-u^2) = d/sd, d(acos u) = -(sd/d) du:
                  du/ddz = d^2/sd^3, du/ddx = -dz dx/sd^3   =>  d/dzT = -d/sd^2,  d/dxT = dz dx/(d sd^2),
                  d/dyT = dz dy/(d sd^2);  with k = 10*R2G/(d sd^2):  xT: k dz dx, yT: k dz dy, zT: -k d d; F: negatives
     x, y, z      phi = coordinate       +1
     xdiff, ...   phi = cT - cF          T: +1, F: -1
   Right-hand side: (observed - computed) * 1e3 [mm] for lengths, * R2CC [cc] for angles, angles reduced by whole
   circles (400e4 cc) into half a circle around zero.                                                          */

//@ prelude
#include "lin_gen.h" /* generated from the repository by lin_pre.py: M_PI, R2G, R2CC, ...; LocalPoint status enum; CS */

typedef int PointID;

struct LocalPoint {
  double x_, y_, z_;
  bool bxy_, bz_;
  int ix_, iy_, iz_;
  double x0_, y0_, z0_;
  int pst_;
};
struct StandPoint {
  double attr_or;
  bool test_or;
  int indx_or;
};
struct Observation {
  const struct StandPoint *cluster;
  PointID from_, to_;
  double value_;
  double reduction_dh_;
  PointID fs_; /* Angle */
};
#define NPTS 3
struct PointData {
  struct LocalPoint pts[NPTS];
  int local_coordinate_system;
  bool left_handed_;
};
struct LocalLinearization {
  long max_size;
  double rhs;
  double coeff[6];
  long index[6];
  long size;
  struct PointData *PD;
  int maxn;
};

int gv_exc;

/* ---- libm as SYMBOLS.  P = prophecy values chosen by the harness (read only), G = what the stubs recorded. ---- */
struct lin_prophecy {
  double sqrt_ret[2];
  double atan2_ret[2];
  double S[2], C[2]; /* sin / cos of bearing #0, #1 */
  double acos_ret;
} P;
struct lin_record {
  int nsqrt, natan2, nacos;
  double sqrt_arg[2];
  double atan2_y[2], atan2_x[2];
  double acos_arg;
  double raw; /* angular misclosure before the reduction loops */
  int j1, j2; /* iterations of the two reduction loops */
} G;

#define BRG(i) (P.atan2_ret[i] >= 0 ? P.atan2_ret[i] : P.atan2_ret[i] + 2 * M_PI) /* bearing.cpp: s >= 0 ? s : s + 2*M_PI */

double lin_sqrt(double x)
{
  __CPROVER_assert(G.nsqrt < 2, "at most two sqrt calls per linearization");
  __CPROVER_assert(x >= 0, "sqrt argument is non-negative");
  double r = P.sqrt_ret[G.nsqrt];
  __CPROVER_assume(r >= 0 && (x > 0 ? r > 0 : r == 0)); /* assumed libm contract */
  G.sqrt_arg[G.nsqrt] = x;
  G.nsqrt++;
  return r;
}
double lin_atan2(double y, double x)
{
  __CPROVER_assert(G.natan2 < 2, "at most two atan2 calls per linearization");
  double r = P.atan2_ret[G.natan2];
  __CPROVER_assume(-M_PI <= r && r <= M_PI); /* assumed libm contract */
  G.atan2_y[G.natan2] = y;
  G.atan2_x[G.natan2] = x;
  G.natan2++;
  return r;
}
double lin_sin(double x)
{
  if (G.natan2 >= 1 && x == BRG(0)) return P.S[0];
  if (G.natan2 >= 2 && x == BRG(1)) return P.S[1];
  __CPROVER_assert(0, "sin is applied to a bearing computed by bearing_distance");
  return 0;
}
double lin_cos(double x)
{
  if (G.natan2 >= 1 && x == BRG(0)) return P.C[0];
  if (G.natan2 >= 2 && x == BRG(1)) return P.C[1];
  __CPROVER_assert(0, "cos is applied to a bearing computed by bearing_distance");
  return 0;
}
double lin_acos(double x)
{
  __CPROVER_assert(G.nacos < 1, "at most one acos call per linearization");
  __CPROVER_assert(-1 <= x && x <= 1, "acos argument in [-1,1]");
  double r = P.acos_ret;
  __CPROVER_assume(0 <= r && r <= M_PI); /* assumed libm contract */
  G.acos_arg = x;
  G.nacos++;
  return r;
}

/* the std::map lookup PD[id]: an array of points (assumption); a missing id would be INSERTED by std::map */
struct LocalPoint *PointData_at(struct PointData *pd, PointID id)
{
  __CPROVER_assert(0 <= id && id < NPTS, "point id is present in the point map");
  return &pd->pts[id];
}

/* prototypes of extracted functions (definition order in the generated file is the unit.json order) */
double Observation_reduction(const struct Observation *self);
PointID Observation_to(const struct Observation *self);
void gama_bearing_distance_xy(double ya, double xa, double yb, double xb, double *b__p, double *d__p);
bool AngularObservations_right_handed_angles(const struct PointData *self);

/* ---- vocabulary of the contracts ---- */
#define PT(L, id) (&(L)->PD->pts[id])
#define FP(L, o) PT(L, (o)->from_)
#define TP(L, o) PT(L, (o)->to_)
#define SP(o) ((struct StandPoint *)(o)->cluster)
#define FREEXY(p) (((p)->pst_ & xy_adjusted_) != 0) /* free or constrained: the coordinate is an unknown */
#define FREEZ(p) (((p)->pst_ & z_adjusted_) != 0)
#define VALUE(o) ((o)->value_ + (o)->reduction_dh_) /* observed value incl. dh reduction */
#define B2I(c) ((c) ? 1 : 0)

#define MAXN 1000000000
#define CMAX 1e9
#define FIN(v, m) (-(m) <= (v) && (v) <= (m)) /* finite and bounded (false for NaN) */
#define COORDS_OK(p) (FIN((p)->x_, CMAX) && FIN((p)->y_, CMAX) && FIN((p)->z_, CMAX))
#define GHOST_RESET (G.nsqrt == 0 && G.natan2 == 0 && G.nacos == 0 && G.j1 == 0 && G.j2 == 0 && gv_exc == 0)
#define SHAPE2(L, o)                                                                                        \
  (__CPROVER_rw_ok((L), sizeof(struct LocalLinearization)) && __CPROVER_rw_ok((L)->PD, sizeof(struct PointData)) && \
   __CPROVER_r_ok((o), sizeof(struct Observation)) && !SAME((L), (L)->PD) && 0 <= (o)->from_ &&             \
   (o)->from_ < NPTS && 0 <= (o)->to_ && (o)->to_ < NPTS && (o)->from_ != (o)->to_ && 0 <= (L)->maxn &&     \
   (L)->maxn <= MAXN && COORDS_OK(FP(L, o)) && COORDS_OK(TP(L, o)) && FIN(VALUE(o), 1e12))
#define NONSING(i) (P.sqrt_ret[i] >= 1e-6 && P.sqrt_ret[i] <= 1e10) /* non-singular: points >= 1 um apart */
#define TRIG(i) (FIN(P.S[i], 1.0) && FIN(P.C[i], 1.0) && FIN(P.atan2_ret[i], M_PI))

/* unknown-index protocol.  `used`: the observation depends on this unknown; u: its index lvalue */
#define WF1(used, u, L) ((used) ==> (0 <= (u) && (u) <= (L)->maxn))
#define WF2(usedu, u, usedv, v) (((usedu) && (usedv) && (u) != 0) ==> (u) != (v))
#define UNK(used, u, L)                                                                                    \
  ((used) ? (__CPROVER_old(u) != 0 ? (u) == __CPROVER_old(u) : ((u) > __CPROVER_old((L)->maxn) && (u) <= (L)->maxn)) \
          : (u) == __CPROVER_old(u))
#define NEWU(used, u) (((used) && __CPROVER_old(u) == 0) ? 1 : 0)
#define NE2(usedu, u, usedv, v) (((usedu) && (usedv)) ==> (u) != (v))

/* design-matrix row as a SET of (index, coefficient) pairs */
#define HAS1(L, k, ix, c) ((L)->size > (k) && (L)->index[k] == (ix) && (L)->coeff[k] == (c))
#define HAS(L, ix, c) (HAS1(L, 0, ix, c) || HAS1(L, 1, ix, c) || HAS1(L, 2, ix, c) || HAS1(L, 3, ix, c) || HAS1(L, 4, ix, c) || HAS1(L, 5, ix, c))
#define DIFF1(L, j, k) ((L)->size > (k) ==> (L)->index[j] != (L)->index[k])
#define EACH_ONCE(L)                                                                                        \
  (DIFF1(L, 0, 1) && DIFF1(L, 0, 2) && DIFF1(L, 0, 3) && DIFF1(L, 0, 4) && DIFF1(L, 0, 5) && DIFF1(L, 1, 2) && \
   DIFF1(L, 1, 3) && DIFF1(L, 1, 4) && DIFF1(L, 1, 5) && DIFF1(L, 2, 3) && DIFF1(L, 2, 4) && DIFF1(L, 2, 5) && \
   DIFF1(L, 3, 4) && DIFF1(L, 3, 5) && DIFF1(L, 4, 5))

/* geometry bound by the recorded libm arguments: call #i of bearing_distance went from point a to point b */
#define DX(a, b) ((b)->x_ - (a)->x_)
#define DY(a, b) ((b)->y_ - (a)->y_)
#define DZ(a, b) ((b)->z_ - (a)->z_)
#define BEARING_OF(i, a, b)                                                                                \
  (G.sqrt_arg[i] == DY(a, b) * DY(a, b) + DX(a, b) * DX(a, b) && G.atan2_y[i] == DY(a, b) && G.atan2_x[i] == DX(a, b))

/* reduction by whole circles, as floating-point repeated subtraction / addition of 400e4 cc */
#define SUBN(r, j) ((j) == 0 ? (r) : (j) == 1 ? (r)-400e4 : (j) == 2 ? ((r)-400e4) - 400e4 : (((r)-400e4) - 400e4) - 400e4)
#define ADDN(r, j) ((j) == 0 ? (r) : (j) == 1 ? (r) + 400e4 : (j) == 2 ? ((r) + 400e4) + 400e4 : (((r) + 400e4) + 400e4) + 400e4)
#define RAW_OK(raw) (-1200e4 <= (raw) && (raw) <= 1200e4) /* stated precondition: |misclosure| <= 3 full circles */
#define REDUCED(L) ((G.j1 == 0 || G.j2 == 0) && 0 <= G.j1 && G.j1 <= 3 && 0 <= G.j2 && G.j2 <= 3 &&          \
                    (L)->rhs == ADDN(SUBN(G.raw, G.j1), G.j2) && -200e4 <= (L)->rhs && (L)->rhs <= 200e4)

#define KANG(d) (10 * R2G / (d)) /* 2000/pi per metre */
//@ end

/* ================================================================================================== */
/* distance: phi = d.  Row: yT +S, xT +C, yF -S, xF -C.  rhs = (observed - d) * 1e3 mm.                */
//@ contract LocalLinearization_distance
__CPROVER_requires(SHAPE2(self, obs) && GHOST_RESET && NONSING(0) && TRIG(0))
__CPROVER_requires(WF1(FREEXY(FP(self, obs)), FP(self, obs)->ix_, self) && WF1(FREEXY(FP(self, obs)), FP(self, obs)->iy_, self) &&
                   WF1(FREEXY(TP(self, obs)), TP(self, obs)->ix_, self) && WF1(FREEXY(TP(self, obs)), TP(self, obs)->iy_, self))
__CPROVER_requires(WF2(FREEXY(FP(self, obs)), FP(self, obs)->ix_, FREEXY(FP(self, obs)), FP(self, obs)->iy_) &&
                   WF2(FREEXY(FP(self, obs)), FP(self, obs)->ix_, FREEXY(TP(self, obs)), TP(self, obs)->ix_) &&
                   WF2(FREEXY(FP(self, obs)), FP(self, obs)->ix_, FREEXY(TP(self, obs)), TP(self, obs)->iy_) &&
                   WF2(FREEXY(FP(self, obs)), FP(self, obs)->iy_, FREEXY(TP(self, obs)), TP(self, obs)->ix_) &&
                   WF2(FREEXY(FP(self, obs)), FP(self, obs)->iy_, FREEXY(TP(self, obs)), TP(self, obs)->iy_) &&
                   WF2(FREEXY(TP(self, obs)), TP(self, obs)->ix_, FREEXY(TP(self, obs)), TP(self, obs)->iy_))
__CPROVER_assigns(self->rhs, self->size, self->maxn, self->coeff, self->index, G, FP(self, obs)->ix_, FP(self, obs)->iy_,
                  TP(self, obs)->ix_, TP(self, obs)->iy_)
__CPROVER_ensures(gv_exc == 0 && G.nsqrt == 1 && G.natan2 == 1 && BEARING_OF(0, FP(self, obs), TP(self, obs)))
__CPROVER_ensures(self->rhs == (VALUE(obs) - P.sqrt_ret[0]) * 1e3)
__CPROVER_ensures(self->size == 2 * B2I(FREEXY(FP(self, obs))) + 2 * B2I(FREEXY(TP(self, obs))))
__CPROVER_ensures(UNK(FREEXY(FP(self, obs)), FP(self, obs)->ix_, self) && UNK(FREEXY(FP(self, obs)), FP(self, obs)->iy_, self) &&
                  UNK(FREEXY(TP(self, obs)), TP(self, obs)->ix_, self) && UNK(FREEXY(TP(self, obs)), TP(self, obs)->iy_, self))
__CPROVER_ensures(self->maxn == __CPROVER_old(self->maxn) + NEWU(FREEXY(FP(self, obs)), FP(self, obs)->ix_) + NEWU(FREEXY(FP(self, obs)), FP(self, obs)->iy_) +
                                    NEWU(FREEXY(TP(self, obs)), TP(self, obs)->ix_) + NEWU(FREEXY(TP(self, obs)), TP(self, obs)->iy_))
__CPROVER_ensures(EACH_ONCE(self))
__CPROVER_ensures(FREEXY(FP(self, obs)) ==> (HAS(self, FP(self, obs)->iy_, -P.S[0]) && HAS(self, FP(self, obs)->ix_, -P.C[0])))
__CPROVER_ensures(FREEXY(TP(self, obs)) ==> (HAS(self, TP(self, obs)->iy_, P.S[0]) && HAS(self, TP(self, obs)->ix_, P.C[0])))
//@ entry LocalLinearization_distance
GV_CANARY("LocalLinearization_distance entry");
//@ end

/* ================================================================================================== */
/* direction: phi = s - o.  Row: o -1; yT +K C, xT -K S, yF -K C, xF +K S with K = 10*R2G/d.
   rhs = (observed - (s - o)) * R2CC = (observed + o - s) * R2CC, reduced by whole circles.             */
//@ contract LocalLinearization_direction
__CPROVER_requires(SHAPE2(self, obs) && GHOST_RESET && NONSING(0) && TRIG(0))
__CPROVER_requires(__CPROVER_rw_ok(SP(obs), sizeof(struct StandPoint)) && !SAME(SP(obs), self) && !SAME(SP(obs), self->PD))
__CPROVER_requires(FIN(SP(obs)->attr_or, 1e12))
__CPROVER_requires(SP(obs)->test_or ==> RAW_OK((VALUE(obs) + SP(obs)->attr_or - BRG(0)) * R2CC))
__CPROVER_requires(WF1(1, SP(obs)->indx_or, self) &&
                   WF1(FREEXY(FP(self, obs)), FP(self, obs)->ix_, self) && WF1(FREEXY(FP(self, obs)), FP(self, obs)->iy_, self) &&
                   WF1(FREEXY(TP(self, obs)), TP(self, obs)->ix_, self) && WF1(FREEXY(TP(self, obs)), TP(self, obs)->iy_, self))
__CPROVER_requires(WF2(FREEXY(FP(self, obs)), FP(self, obs)->ix_, FREEXY(FP(self, obs)), FP(self, obs)->iy_) &&
                   WF2(FREEXY(FP(self, obs)), FP(self, obs)->ix_, FREEXY(TP(self, obs)), TP(self, obs)->ix_) &&
                   WF2(FREEXY(FP(self, obs)), FP(self, obs)->ix_, FREEXY(TP(self, obs)), TP(self, obs)->iy_) &&
                   WF2(FREEXY(FP(self, obs)), FP(self, obs)->iy_, FREEXY(TP(self, obs)), TP(self, obs)->ix_) &&
                   WF2(FREEXY(FP(self, obs)), FP(self, obs)->iy_, FREEXY(TP(self, obs)), TP(self, obs)->iy_) &&
                   WF2(FREEXY(TP(self, obs)), TP(self, obs)->ix_, FREEXY(TP(self, obs)), TP(self, obs)->iy_) &&
                   WF2(1, SP(obs)->indx_or, FREEXY(FP(self, obs)), FP(self, obs)->ix_) && WF2(1, SP(obs)->indx_or, FREEXY(FP(self, obs)), FP(self, obs)->iy_) &&
                   WF2(1, SP(obs)->indx_or, FREEXY(TP(self, obs)), TP(self, obs)->ix_) && WF2(1, SP(obs)->indx_or, FREEXY(TP(self, obs)), TP(self, obs)->iy_) &&
                   WF2(FREEXY(FP(self, obs)), FP(self, obs)->ix_, 1, SP(obs)->indx_or) && WF2(FREEXY(FP(self, obs)), FP(self, obs)->iy_, 1, SP(obs)->indx_or) &&
                   WF2(FREEXY(TP(self, obs)), TP(self, obs)->ix_, 1, SP(obs)->indx_or) && WF2(FREEXY(TP(self, obs)), TP(self, obs)->iy_, 1, SP(obs)->indx_or))
__CPROVER_assigns(self->rhs, self->size, self->maxn, self->coeff, self->index, G, gv_exc, SP(obs)->indx_or,
                  FP(self, obs)->ix_, FP(self, obs)->iy_, TP(self, obs)->ix_, TP(self, obs)->iy_)
__CPROVER_ensures((gv_exc == 0) == (SP(obs)->test_or != 0))
__CPROVER_ensures(G.nsqrt == 1 && G.natan2 == 1 && BEARING_OF(0, FP(self, obs), TP(self, obs)))
__CPROVER_ensures(gv_exc == 0 ==> (G.raw == (VALUE(obs) + SP(obs)->attr_or - BRG(0)) * R2CC && REDUCED(self)))
__CPROVER_ensures(gv_exc == 0 ==> self->size == 1 + 2 * B2I(FREEXY(FP(self, obs))) + 2 * B2I(FREEXY(TP(self, obs))))
__CPROVER_ensures(gv_exc == 0 ==> (UNK(1, SP(obs)->indx_or, self) &&
                  UNK(FREEXY(FP(self, obs)), FP(self, obs)->ix_, self) && UNK(FREEXY(FP(self, obs)), FP(self, obs)->iy_, self) &&
                  UNK(FREEXY(TP(self, obs)), TP(self, obs)->ix_, self) && UNK(FREEXY(TP(self, obs)), TP(self, obs)->iy_, self)))
__CPROVER_ensures(gv_exc == 0 ==> self->maxn == __CPROVER_old(self->maxn) + NEWU(1, SP(obs)->indx_or) +
                                    NEWU(FREEXY(FP(self, obs)), FP(self, obs)->ix_) + NEWU(FREEXY(FP(self, obs)), FP(self, obs)->iy_) +
                                    NEWU(FREEXY(TP(self, obs)), TP(self, obs)->ix_) + NEWU(FREEXY(TP(self, obs)), TP(self, obs)->iy_))
__CPROVER_ensures(gv_exc == 0 ==> EACH_ONCE(self))
__CPROVER_ensures(gv_exc == 0 ==> HAS(self, SP(obs)->indx_or, -1.0))
__CPROVER_ensures((gv_exc == 0 && FREEXY(FP(self, obs))) ==> (HAS(self, FP(self, obs)->iy_, -(KANG(P.sqrt_ret[0]) * P.C[0])) && HAS(self, FP(self, obs)->ix_, KANG(P.sqrt_ret[0]) * P.S[0])))
__CPROVER_ensures((gv_exc == 0 && FREEXY(TP(self, obs))) ==> (HAS(self, TP(self, obs)->iy_, KANG(P.sqrt_ret[0]) * P.C[0]) && HAS(self, TP(self, obs)->ix_, -(KANG(P.sqrt_ret[0]) * P.S[0]))))
//@ entry LocalLinearization_direction
GV_CANARY("LocalLinearization_direction entry");
//@ pre LocalLinearization_direction 1
G.raw = a;
//@ loop LocalLinearization_direction 1
__CPROVER_assigns(a, G.j1)
__CPROVER_loop_invariant(0 <= G.j1 && G.j1 <= 3 && a == SUBN(G.raw, G.j1) && (G.j1 > 0 ==> a > -200e4))
__CPROVER_decreases(3 - G.j1)
//@ tail LocalLinearization_direction 1
G.j1++;
//@ loop LocalLinearization_direction 2
__CPROVER_assigns(a, G.j2)
__CPROVER_loop_invariant(0 <= G.j2 && G.j2 <= 3 && (G.j1 == 0 || G.j2 == 0) && a == ADDN(SUBN(G.raw, G.j1), G.j2) && a <= 200e4)
__CPROVER_decreases(3 - G.j2)
//@ tail LocalLinearization_direction 2
G.j2++;
//@ end

//@ harness
/* The harnesses only build memory; every precondition is a `requires` of the enforced contract. */
static struct PointData gv_pd;
static struct LocalLinearization gv_L;
static struct Observation gv_ob;
static struct StandPoint gv_sp;

static void mk_state(void)
{
  struct PointData pd;          /* nondeterministic contents */
  struct LocalLinearization L;
  struct Observation ob;
  struct StandPoint sp;
  struct lin_prophecy p;
  gv_pd = pd;
  gv_L = L;
  gv_ob = ob;
  gv_sp = sp;
  P = p;
  gv_L.PD = &gv_pd;
  gv_ob.cluster = &gv_sp;
}

void h_distance(void)
{
  mk_state();
  LocalLinearization_distance(&gv_L, &gv_ob);
  GV_CANARY("h_distance end");
}

void h_direction(void)
{
  mk_state();
  LocalLinearization_direction(&gv_L, &gv_ob);
  GV_CANARY("h_direction end");
}
//@ end
