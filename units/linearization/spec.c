/* Sidecar contracts for lib/gnu_gama/local/local_linearization.cpp (property C05).
   Only contracts, ghost declarations, callee stubs and harnesses live here; every function body -- the thirteen
   LocalLinearization members, the LocalPoint / Observation / StandPoint getters they call, both bearing_distance
   overloads and PointData::xNorthAngle -- is extracted from /repo on every run.

   HAND DERIVATION of the expected design-matrix rows (not read off the code; reviewed against
   doc/gama-local-adj.texi, node "Linearization": A = d(phi)/dX, b = L - phi(X0), angular rows scaled by
   2000/pi = 10*R2G, corrections to coordinates in mm, to angular quantities in cc; the document gives no
   per-type formulas, so there is nothing more to cross-check there).

   Notation: F = from/stand point, T = to/target point; dx = xT-xF, dy = yT-yF, dz = zT-zF;
   d = sqrt(dx^2+dy^2) (horizontal), sd = sqrt(dx^2+dy^2+dz^2) (slope); gama's bearing s = atan2(dy,dx)
   (angle from +x towards +y, mapped to [0,2pi)), hence dy = d sin s, dx = d cos s; S = sin s, C = cos s.
   Unit factors: coordinate corrections are in mm, so a length observable [mm] has factor 1 per unit of
   d(phi)/d(coord); an angle observable [cc] has (200e4/pi cc/rad) / (1000 mm/m) = 2000/pi = 10*R2G per 1/metre.

     distance     phi = d                d/dyT = dy/d = S      d/dxT = dx/d = C      F: negatives
     direction    phi = s - o            d/dyT = dx/d^2 = C/d  d/dxT = -dy/d^2 = -S/d  F: negatives   d/do = -1
                  -> K = 10*R2G/d:       yT: +K C   xT: -K S   yF: -K C   xF: +K S   o: -1 (cc/cc)
     azimuth      phi = s - N (N = bearing of north, a constant of the coordinate system): as direction, no o
     angle        phi = s2 - s1 (bs = 1, fs = 2)  fs: y +K2 C2, x -K2 S2;  bs: y -K1 C1, x +K1 S1;
                                         F: y -K2 C2 + K1 C1,  x +K2 S2 - K1 S1
     h_diff       phi = zT - zF          zT: +1   zF: -1
     s_distance   phi = sd               d/dxT = dx/sd, d/dyT = dy/sd, d/dzT = dz/sd   F: negatives
     z_angle      phi = acos(dz/sd); with u = dz/sd, sqrt(1-u^2) = d/sd, d(acos u) = -(sd/d) du:
                  du/ddz = d^2/sd^3, du/ddx = -dz dx/sd^3   =>  d/dzT = -d/sd^2,  d/dxT = dz dx/(d sd^2),
                  d/dyT = dz dy/(d sd^2);  with k = 10*R2G/(d sd^2):  xT: k dz dx, yT: k dz dy, zT: -k d d; F: negatives.
                  A reading L > pi (second face) observes phi' = 2pi - phi, whose derivatives are the NEGATIVES.
     x, y, z      phi = coordinate       +1
     xdiff, ...   phi = cT - cF          T: +1, F: -1
   Right-hand side: (observed - computed) * 1e3 [mm] for lengths, * R2CC [cc] for angles, angles reduced by whole
   circles (400e4 cc) into half a circle around zero.

   HALF-OPEN RANGE: the property asks for "the half-open range of half a circle" without saying which end is open.
   On the tree as found BOTH ends were produced (closed interval; native demonstration in replay.cpp); the repository
   adopted [-200, 200) gon with its commit 3a3bc0b, and REDUCED() below states exactly that range.

   TWO checks per function (same contract text, selected by -DLIN_VALUES):
     <fn>      LIN_VALUES=0, SAT:  row structure -- size, index set (each unknown once), index-assignment protocol,
               maxn, frame (assigns clause), memory safety, reduction loops (invariants, termination, range);
     <fn>_val  LIN_VALUES=1, cvc5 + --slice-formula on the listed postconditions: the floating-point VALUES of the
               coefficients and of the right-hand side, and the arguments that reach sqrt/atan2/acos.  They are exact
               identities between the code's value and the hand-derived expression written with the same association;
               a SAT back end cannot prove two multiplier circuits equal (measured: > 200 s for one `*1e3`).           */

//@ prelude
#include "lin_gen.h" /* generated from the repository by lin_pre.py: M_PI, R2G, R2CC, ...; LocalPoint status enum; CS */
#ifndef LIN_VALUES
#define LIN_VALUES 0
#endif

typedef int PointID;

struct LocalPoint {
  double x_, y_, z_;
  bool bxy_, bz_;
  int ix_, iy_, iz_;
  double x0_, y0_, z0_;
  int pst_;
};
struct StandPoint {
  double attr_or;
  bool test_or;
  int indx_or;
};
struct Observation {
  const struct StandPoint *cluster;
  PointID from_, to_;
  double value_;
  double reduction_dh_;
  PointID fs_; /* Angle */
};
#define NPTS 3
struct PointData {
  struct LocalPoint pts[NPTS];
  int local_coordinate_system;
  bool left_handed_;
};
struct LocalLinearization {
  long max_size;
  double rhs;
  double coeff[6];
  long index[6];
  long size;
  struct PointData *PD;
  int maxn;
};

int gv_exc;

/* ---- libm as SYMBOLS.  P = prophecy values chosen by the harness (read only), G = what the stubs recorded. ---- */
struct lin_prophecy {
  double sqrt_ret[2];
  double atan2_ret[2];
  double S[2], C[2]; /* sin / cos of bearing #0, #1 */
  double acos_ret;
} P;
struct lin_record {
  int nsqrt, natan2, nacos, nsin, ncos;
  double sin_arg[2], cos_arg[2];
  double sqrt_arg[2];
  double atan2_y[2], atan2_x[2];
  double brg0[2]; /* ghost: atan2 value #i mapped to [0, 2pi] as a VARIABLE (keeps CBMC from distributing a comparison over the ?:) */
  double acos_arg;
  double north; /* value returned by PointData::xNorthAngle() */
  double raw; /* angular misclosure before the reduction loops */
  int j1, j2; /* iterations of the two reduction loops */
} G;

/* gama's bearing: atan2 mapped to the half-open circle [0, 2pi).  (theta + 2pi rounds to exactly 2pi for a tiny
   negative theta; that value is 0.  The repository did not do this before its commit 02c5215.) */
#define BRG0(i) (P.atan2_ret[i] >= 0 ? P.atan2_ret[i] : P.atan2_ret[i] + 2 * M_PI)
#define BRG(i) (BRG0(i) >= 2 * M_PI ? 0.0 : BRG0(i))

double lin_sqrt(double x)
{
  __CPROVER_assert(G.nsqrt < 2, "at most two sqrt calls per linearization");
  __CPROVER_assert(x >= 0, "sqrt argument is non-negative");
  double r = P.sqrt_ret[G.nsqrt];
  __CPROVER_assume(r >= 0 && (x > 0 ? r > 0 : r == 0)); /* assumed libm contract */
  G.sqrt_arg[G.nsqrt] = x;
  G.nsqrt++;
  return r;
}
double lin_atan2(double y, double x)
{
  /* bearing.cpp calls sqrt first and atan2 only for d >= 1e-6: the symbol index is the number of the bearing
     (= sqrt calls so far - 1), a constant at every call site, not the number of atan2 calls */
  const int i = G.nsqrt - 1;
  __CPROVER_assert(0 <= i && i < 2 && G.natan2 <= i, "atan2 is called at most once per bearing, after its sqrt");
  double r = P.atan2_ret[i];
  __CPROVER_assume(-M_PI <= r && r <= M_PI); /* assumed libm contract */
  G.atan2_y[i] = y;
  G.atan2_x[i] = x;
  G.brg0[i] = r >= 0 ? r : r + 2 * M_PI;
  G.natan2 = i + 1;
  return r;
}
double lin_sin(double x)
{
  __CPROVER_assert(G.nsin < 2, "at most two sin calls per linearization");
  double r = P.S[G.nsin];
  __CPROVER_assume(-1 <= r && r <= 1); /* assumed libm contract */
  G.sin_arg[G.nsin] = x;
  G.nsin++;
  return r;
}
double lin_cos(double x)
{
  __CPROVER_assert(G.ncos < 2, "at most two cos calls per linearization");
  double r = P.C[G.ncos];
  __CPROVER_assume(-1 <= r && r <= 1); /* assumed libm contract */
  G.cos_arg[G.ncos] = x;
  G.ncos++;
  return r;
}
double lin_acos(double x)
{
  __CPROVER_assert(G.nacos < 1, "at most one acos call per linearization");
  double r = P.acos_ret;
  __CPROVER_assume(0 <= r && r <= M_PI); /* assumed libm contract */
  G.acos_arg = x;
  G.nacos++;
  return r;
}

/* the std::map lookup PD[id]: an array of points (assumption); a missing id would be INSERTED by std::map */
struct LocalPoint *PointData_at(struct PointData *pd, PointID id)
{
  __CPROVER_assert(0 <= id && id < NPTS, "point id is present in the point map");
  return &pd->pts[id];
}

/* recording shim around the REAL (extracted) PointData::xNorthAngle: lets the contracts name the returned value */
double PointData_xNorthAngle(const struct PointData *self);
double lin_north(const struct PointData *pd)
{
  G.north = PointData_xNorthAngle(pd);
  return G.north;
}

/* prototypes of extracted functions (definition order in the generated file is the unit.json order) */
double Observation_reduction(const struct Observation *self);
PointID Observation_to(const struct Observation *self);
void gama_bearing_distance_xy(double ya, double xa, double yb, double xb, double *b__p, double *d__p);
bool AngularObservations_right_handed_angles(const struct PointData *self);

/* ---- vocabulary of the contracts (the enforced functions name their parameters self, obs) ---- */
/* WLOG the point ids are 0 (from), 1 (to / bs), 2 (fs): the map stub is an arbitrary injection id -> point */
#define F0 (&self->PD->pts[0])
#define T0 (&self->PD->pts[1])
#define S0 (&self->PD->pts[2])
#define SP(o) ((struct StandPoint *)(o)->cluster)
#define FREEXY(p) (((p)->pst_ & xy_adjusted_) != 0) /* free or constrained: the coordinates are unknowns */
#define FREEZ(p) (((p)->pst_ & z_adjusted_) != 0)
#define VALUE(o) ((o)->value_ + (o)->reduction_dh_) /* observed value incl. dh reduction */
#define B2I(c) ((c) ? 1 : 0)

#define MAXN 1000000000
#define CMAX 1e9
#define FIN(v, m) (-(m) <= (v) && (v) <= (m)) /* finite and bounded (false for NaN) */
#define COORDS_OK(p) (FIN((p)->x_, CMAX) && FIN((p)->y_, CMAX) && FIN((p)->z_, CMAX))
#define GHOST_RESET (G.nsqrt == 0 && G.natan2 == 0 && G.nacos == 0 && G.nsin == 0 && G.ncos == 0 && G.j1 == 0 && G.j2 == 0 && gv_exc == 0)
#define SHAPE(L, o)                                                                                         \
  (__CPROVER_rw_ok((L), sizeof(struct LocalLinearization)) && __CPROVER_rw_ok((L)->PD, sizeof(struct PointData)) && \
   __CPROVER_r_ok((o), sizeof(struct Observation)) && !SAME((L), (L)->PD) && !SAME((o), (L)) && !SAME((o), (L)->PD) && \
   (o)->from_ == 0 && 0 <= (L)->maxn && (L)->maxn <= MAXN && FIN(VALUE(o), 1e12) && GHOST_RESET)
#define SHAPE1(L, o) (SHAPE(L, o) && COORDS_OK(F0))
#define SHAPE2(L, o) (SHAPE(L, o) && (o)->to_ == 1 && COORDS_OK(F0) && COORDS_OK(T0))
#define SHAPE3(L, o) (SHAPE2(L, o) && (o)->fs_ == 2 && COORDS_OK(S0))
/* non-singular: points >= 1 um apart (bearing_distance returns d = 0 below that).  Written as the NEGATION of the
   comparison bearing.cpp makes so that an SMT solver propagates it as a literal. */
#define NONSING(i) (!(P.sqrt_ret[i] < 1e-6) && P.sqrt_ret[i] <= 1e10)
/* Solver hints.  bearing_distance returns (0,0) below 1e-6 and orientation() returns through an exception branch;
   CBMC turns both into if-then-else terms.  cvc5 proves a value identity only when both sides are the SAME term, so
   the _val contracts write the symbols with the same (under the preconditions: dead) case split.  The structure
   check proves, with SAT, that each hint EQUALS the plain symbol (HINTS_EQ), so nothing is weakened.            */
#define DISTX(i) (P.sqrt_ret[i] < 1e-6 ? 0.0 : P.sqrt_ret[i])
#define BRGX_(i, B0) (P.sqrt_ret[i] < 1e-6 ? 0.0 : ((!(P.sqrt_ret[i] < 1e-6) && !(B0 >= 2 * M_PI)) ? B0 : 0.0)) /* the merge of the two early exits exactly as CBMC builds it */
#define BRGX(i) BRGX_(i, G.brg0[i])   /* for postconditions: over the ghost VARIABLE recorded by the atan2 stub (G.brg0[i] == BRG0(i) is part of HINTS_EQ) */
#define BRGX_IN(i) BRGX_(i, BRG0(i))  /* for preconditions: over the inputs only (ghost state is not yet written at entry) */
#define ORIX(o) (SP(o)->test_or ? SP(o)->attr_or : 0.0)
#define HINTS_EQ(i) (DISTX(i) == P.sqrt_ret[i] && G.brg0[i] == BRG0(i) && BRGX(i) == BRG(i))
/* sin and cos were applied to the bearing of call #i */
#define TRIG_OF(i) (G.sin_arg[i] == BRG(i) && G.cos_arg[i] == BRG(i))
#define TRIG(i) (FIN(P.S[i], 1.0) && FIN(P.C[i], 1.0) && FIN(P.atan2_ret[i], M_PI))

/* unknowns as (used, index-lvalue) pairs.  `used`: the observation depends on this unknown */
#define U_FX (FREEXY(F0), F0->ix_)
#define U_FY (FREEXY(F0), F0->iy_)
#define U_FZ (FREEZ(F0), F0->iz_)
#define U_TX (FREEXY(T0), T0->ix_)
#define U_TY (FREEXY(T0), T0->iy_)
#define U_TZ (FREEZ(T0), T0->iz_)
#define U_SX (FREEXY(S0), S0->ix_)
#define U_SY (FREEXY(S0), S0->iy_)
#define U_OR (1, SP(obs)->indx_or)

/* precondition: indices already assigned to the unknowns involved are in 1..maxn and pairwise distinct */
#define WF1(used, u) ((used) ==> (0 <= (u) && (u) <= self->maxn))
#define WF2(usedu, u, usedv, v) (((usedu) && (usedv) && (u) != 0) ==> (u) != (v))
/* postcondition: an assigned index is left alone, an unassigned one becomes fresh (> old maxn, <= new maxn);
   indices of unknowns the observation does not depend on are untouched */
#define UNK(used, u)                                                                                       \
  ((used) ? (__CPROVER_old(u) != 0 ? (u) == __CPROVER_old(u) : ((u) > __CPROVER_old(self->maxn) && (u) <= self->maxn)) \
          : (u) == __CPROVER_old(u))
#define NEWU(used, u) (((used) && __CPROVER_old(u) == 0) ? 1 : 0)
#define CNT(used, u) B2I(used)
#define IN_ROW(used, u) ((used) ==> HASIX(self, u))
/* unknown descriptors are parenthesised tuples; X_T applies macro X to a tuple (or two) */
#define UNTUP(...) __VA_ARGS__
#define WF1_T(a) WF1 a
#define UNK_T(a) UNK a
#define NEWU_T(a) NEWU a
#define CNT_T(a) CNT a
#define IN_ROW_T(a) IN_ROW a
#define WF2_I(...) WF2(__VA_ARGS__)
#define WF2_T(a, b) WF2_I(UNTUP a, UNTUP b)
#define ALL1(M, a) (M(a))
#define ALL2(M, a, b) (M(a) && M(b))
#define ALL4(M, a, b, c, d) (M(a) && M(b) && M(c) && M(d))
#define ALL5(M, a, b, c, d, e) (M(a) && M(b) && M(c) && M(d) && M(e))
#define ALL6(M, a, b, c, d, e, f) (M(a) && M(b) && M(c) && M(d) && M(e) && M(f))
#define SUM1(M, a) (M(a))
#define SUM2(M, a, b) (M(a) + M(b))
#define SUM4(M, a, b, c, d) (M(a) + M(b) + M(c) + M(d))
#define SUM5(M, a, b, c, d, e) (M(a) + M(b) + M(c) + M(d) + M(e))
#define SUM6(M, a, b, c, d, e, f) (M(a) + M(b) + M(c) + M(d) + M(e) + M(f))
#define PAIRS2(M, a, b) (M(a, b))
#define PAIRS4(M, a, b, c, d) (M(a, b) && M(a, c) && M(a, d) && M(b, c) && M(b, d) && M(c, d))
#define PAIRS5(M, a, b, c, d, e) (PAIRS4(M, a, b, c, d) && M(a, e) && M(b, e) && M(c, e) && M(d, e))
#define PAIRS6(M, a, b, c, d, e, f) (PAIRS5(M, a, b, c, d, e) && M(a, f) && M(b, f) && M(c, f) && M(d, f) && M(e, f))
/* the three structure clauses every function gets, for its list of n unknowns */
#define PRE_UNK1(a) (ALL1(WF1_T, a))
#define PRE_UNK2(a, b) (ALL2(WF1_T, a, b) && PAIRS2(WF2_T, a, b))
#define PRE_UNK4(a, b, c, d) (ALL4(WF1_T, a, b, c, d) && PAIRS4(WF2_T, a, b, c, d))
#define PRE_UNK5(a, b, c, d, e) (ALL5(WF1_T, a, b, c, d, e) && PAIRS5(WF2_T, a, b, c, d, e))
#define PRE_UNK6(a, b, c, d, e, f) (ALL6(WF1_T, a, b, c, d, e, f) && PAIRS6(WF2_T, a, b, c, d, e, f))
#define POST_ROW(ALLn, SUMn, ...)                                                                          \
  (self->size == SUMn(CNT_T, __VA_ARGS__) && ALLn(UNK_T, __VA_ARGS__) &&                                       \
   self->maxn == __CPROVER_old(self->maxn) + SUMn(NEWU_T, __VA_ARGS__) && EACH_ONCE(self) && ALLn(IN_ROW_T, __VA_ARGS__))

/* design-matrix row as a SET of (index, coefficient) pairs */
#define HASIX1(L, k, ix) ((L)->size > (k) && (L)->index[k] == (ix))
#define HASIX(L, ix) (HASIX1(L, 0, ix) || HASIX1(L, 1, ix) || HASIX1(L, 2, ix) || HASIX1(L, 3, ix) || HASIX1(L, 4, ix) || HASIX1(L, 5, ix))
#define HAS1(L, k, ix, c) ((L)->size > (k) && (L)->index[k] == (ix) && (L)->coeff[k] == (c))
#define HAS(L, ix, c) (HAS1(L, 0, ix, c) || HAS1(L, 1, ix, c) || HAS1(L, 2, ix, c) || HAS1(L, 3, ix, c) || HAS1(L, 4, ix, c) || HAS1(L, 5, ix, c))
#define COEF(used, u, c) ((used) ==> HAS(self, u, c))
#define COEF_I(...) COEF(__VA_ARGS__)
#define COEF_(a, c) COEF_I(UNTUP a, c)
#define DIFF1(L, j, k) ((L)->size > (k) ==> (L)->index[j] != (L)->index[k])
#define EACH_ONCE(L)                                                                                        \
  (0 <= (L)->size && (L)->size <= 6 &&                                                                      \
   DIFF1(L, 0, 1) && DIFF1(L, 0, 2) && DIFF1(L, 0, 3) && DIFF1(L, 0, 4) && DIFF1(L, 0, 5) && DIFF1(L, 1, 2) && \
   DIFF1(L, 1, 3) && DIFF1(L, 1, 4) && DIFF1(L, 1, 5) && DIFF1(L, 2, 3) && DIFF1(L, 2, 4) && DIFF1(L, 2, 5) && \
   DIFF1(L, 3, 4) && DIFF1(L, 3, 5) && DIFF1(L, 4, 5))

/* geometry: what reaches libm */
#define DX(a, b) ((b)->x_ - (a)->x_)
#define DY(a, b) ((b)->y_ - (a)->y_)
#define DZ(a, b) ((b)->z_ - (a)->z_)
/* call #i of bearing_distance went from point a to point b: d = sqrt(dy^2+dx^2), s = atan2(dy, dx) */
#define SQRT_OF(i, a, b) (G.sqrt_arg[i] == DY(a, b) * DY(a, b) + DX(a, b) * DX(a, b))
#define ATAN2_OF(i, a, b) (G.atan2_y[i] == DY(a, b) && G.atan2_x[i] == DX(a, b))

/* reduction by whole circles, as floating-point repeated subtraction / addition of 400e4 cc */
#define SUBN(r, j) ((j) == 0 ? (r) : (j) == 1 ? (r)-400e4 : (j) == 2 ? ((r)-400e4) - 400e4 : (((r)-400e4) - 400e4) - 400e4)
#define ADDN(r, j) ((j) == 0 ? (r) : (j) == 1 ? (r) + 400e4 : (j) == 2 ? ((r) + 400e4) + 400e4 : (((r) + 400e4) + 400e4) + 400e4)
#define RAW_OK(raw) (-1200e4 <= (raw) && (raw) <= 1200e4) /* stated precondition: |misclosure| <= 3 full circles */
#define REDUCED(L) ((G.j1 == 0 || G.j2 == 0) && 0 <= G.j1 && G.j1 <= 3 && 0 <= G.j2 && G.j2 <= 3 &&          \
                    (L)->rhs == ADDN(SUBN(G.raw, G.j1), G.j2) && -200e4 <= (L)->rhs && (L)->rhs < 200e4) /* half-open [-200, 200) gon */

/* Instantiation of the stated precondition RAW_OK(RAW_x_IN) (misclosure expression over the inputs) at the variable the
   reduction loops start from.  RAW_x (what `a` is proved equal to) and RAW_x_IN are the same expression up to the ghost
   variables G.brg0[i] / G.north, which the structure check proves equal to BRG0(i) / NORTH_GON*G2R (congruence).  The _val check (cvc5) proves `a == spec` BEFORE anything is assumed; the structure
   check (SAT) then uses RAW_OK(a).  (SAT cannot connect two multiplier circuits, cvc5 sees the same term.)    */
#if LIN_VALUES
#define LIN_INST_RAW(a, spec) do { __CPROVER_assert((a) == (spec), "instantiation index in range: loops start from the misclosure that the precondition bounds"); \
                                   __CPROVER_assume(RAW_OK(a)); } while (0)
#else
#define LIN_INST_RAW(a, spec) __CPROVER_assume(RAW_OK(a))
#endif

#define KANG(d) (10 * R2G / (d)) /* 2000/pi per metre */

/* bearing of north = angle from the +x axis to north in the sense angles are measured (gama keeps the internal
   system consistent with that sense by flipping y on input, so only the x axis matters).  Clockwise
   ("left-handed" angles, gama's default) from +x to north: x = N: 0, x = E: 300, x = S: 200, x = W: 100 gon;
   counter-clockwise ("right-handed"): N: 0, E: 100, S: 200, W: 300.                                      */
#define XAXIS_N(cs) ((cs) == CS_NE || (cs) == CS_NW)
#define XAXIS_E(cs) ((cs) == CS_EN || (cs) == CS_ES)
#define XAXIS_S(cs) ((cs) == CS_SE || (cs) == CS_SW)
#define XAXIS_W(cs) ((cs) == CS_WN || (cs) == CS_WS)
#define NORTH_GON(pd)                                                                                      \
  (XAXIS_N((pd)->local_coordinate_system) ? 0                                                              \
   : XAXIS_S((pd)->local_coordinate_system) ? 200                                                          \
   : XAXIS_E((pd)->local_coordinate_system) ? ((pd)->left_handed_ ? 300 : 100)                             \
                                            : ((pd)->left_handed_ ? 100 : 300))
#define CS_OK(pd) (XAXIS_N((pd)->local_coordinate_system) || XAXIS_E((pd)->local_coordinate_system) ||     \
                   XAXIS_S((pd)->local_coordinate_system) || XAXIS_W((pd)->local_coordinate_system))
//@ end

/* ================================================================================================== */
/* x, y, z: phi = the coordinate.  Row: +1.  rhs = (observed - coordinate) * 1e3 mm.                    */
//@ contract LocalLinearization_x
__CPROVER_requires(SHAPE1(self, obs) && PRE_UNK1(U_FX))
__CPROVER_assigns(self->rhs, self->size, self->maxn, self->coeff, self->index, F0->ix_)
#if LIN_VALUES
__CPROVER_ensures(self->rhs == (VALUE(obs) - F0->x_) * 1e3)
__CPROVER_ensures(COEF_(U_FX, 1.0))
#else
__CPROVER_ensures(POST_ROW(ALL1, SUM1, U_FX))
#endif
//@ entry LocalLinearization_x
GV_CANARY("LocalLinearization_x entry");
//@ contract LocalLinearization_y
__CPROVER_requires(SHAPE1(self, obs) && PRE_UNK1(U_FY))
__CPROVER_assigns(self->rhs, self->size, self->maxn, self->coeff, self->index, F0->iy_)
#if LIN_VALUES
__CPROVER_ensures(self->rhs == (VALUE(obs) - F0->y_) * 1e3)
__CPROVER_ensures(COEF_(U_FY, 1.0))
#else
__CPROVER_ensures(POST_ROW(ALL1, SUM1, U_FY))
#endif
//@ entry LocalLinearization_y
GV_CANARY("LocalLinearization_y entry");
//@ contract LocalLinearization_z
__CPROVER_requires(SHAPE1(self, obs) && PRE_UNK1(U_FZ))
__CPROVER_assigns(self->rhs, self->size, self->maxn, self->coeff, self->index, F0->iz_)
#if LIN_VALUES
__CPROVER_ensures(self->rhs == (VALUE(obs) - F0->z_) * 1e3)
__CPROVER_ensures(COEF_(U_FZ, 1.0))
#else
__CPROVER_ensures(POST_ROW(ALL1, SUM1, U_FZ))
#endif
//@ entry LocalLinearization_z
GV_CANARY("LocalLinearization_z entry");
//@ end

/* ================================================================================================== */
/* xdiff, ydiff, zdiff, h_diff: phi = cT - cF.  Row: T +1, F -1.  rhs = (observed - (cT - cF)) * 1e3 mm. */
//@ contract LocalLinearization_xdiff
__CPROVER_requires(SHAPE2(self, obs) && PRE_UNK2(U_FX, U_TX))
__CPROVER_assigns(self->rhs, self->size, self->maxn, self->coeff, self->index, F0->ix_, T0->ix_)
#if LIN_VALUES
__CPROVER_ensures(self->rhs == (VALUE(obs) - DX(F0, T0)) * 1e3)
__CPROVER_ensures(COEF_(U_FX, -1.0) && COEF_(U_TX, 1.0))
#else
__CPROVER_ensures(POST_ROW(ALL2, SUM2, U_FX, U_TX))
#endif
//@ entry LocalLinearization_xdiff
GV_CANARY("LocalLinearization_xdiff entry");
//@ contract LocalLinearization_ydiff
__CPROVER_requires(SHAPE2(self, obs) && PRE_UNK2(U_FY, U_TY))
__CPROVER_assigns(self->rhs, self->size, self->maxn, self->coeff, self->index, F0->iy_, T0->iy_)
#if LIN_VALUES
__CPROVER_ensures(self->rhs == (VALUE(obs) - DY(F0, T0)) * 1e3)
__CPROVER_ensures(COEF_(U_FY, -1.0) && COEF_(U_TY, 1.0))
#else
__CPROVER_ensures(POST_ROW(ALL2, SUM2, U_FY, U_TY))
#endif
//@ entry LocalLinearization_ydiff
GV_CANARY("LocalLinearization_ydiff entry");
//@ contract LocalLinearization_zdiff
__CPROVER_requires(SHAPE2(self, obs) && PRE_UNK2(U_FZ, U_TZ))
__CPROVER_assigns(self->rhs, self->size, self->maxn, self->coeff, self->index, F0->iz_, T0->iz_)
#if LIN_VALUES
__CPROVER_ensures(self->rhs == (VALUE(obs) - DZ(F0, T0)) * 1e3)
__CPROVER_ensures(COEF_(U_FZ, -1.0) && COEF_(U_TZ, 1.0))
#else
__CPROVER_ensures(POST_ROW(ALL2, SUM2, U_FZ, U_TZ))
#endif
//@ entry LocalLinearization_zdiff
GV_CANARY("LocalLinearization_zdiff entry");
//@ contract LocalLinearization_h_diff
__CPROVER_requires(SHAPE2(self, obs) && PRE_UNK2(U_FZ, U_TZ))
__CPROVER_assigns(self->rhs, self->size, self->maxn, self->coeff, self->index, F0->iz_, T0->iz_)
#if LIN_VALUES
__CPROVER_ensures(self->rhs == (VALUE(obs) - DZ(F0, T0)) * 1e3)
__CPROVER_ensures(COEF_(U_FZ, -1.0) && COEF_(U_TZ, 1.0))
#else
__CPROVER_ensures(POST_ROW(ALL2, SUM2, U_FZ, U_TZ))
#endif
//@ entry LocalLinearization_h_diff
GV_CANARY("LocalLinearization_h_diff entry");
//@ end

/* ================================================================================================== */
/* distance: phi = d.  Row: yT +S, xT +C, yF -S, xF -C.  rhs = (observed - d) * 1e3 mm.                */
//@ contract LocalLinearization_distance
__CPROVER_requires(SHAPE2(self, obs) && NONSING(0) && TRIG(0) && PRE_UNK4(U_FX, U_FY, U_TX, U_TY))
__CPROVER_assigns(self->rhs, self->size, self->maxn, self->coeff, self->index, G, F0->ix_, F0->iy_, T0->ix_, T0->iy_)
#if LIN_VALUES
__CPROVER_ensures(SQRT_OF(0, F0, T0))
__CPROVER_ensures(self->rhs == (VALUE(obs) - P.sqrt_ret[0]) * 1e3)
__CPROVER_ensures(COEF_(U_FY, -P.S[0]) && COEF_(U_FX, -P.C[0]) && COEF_(U_TY, P.S[0]) && COEF_(U_TX, P.C[0]))
__CPROVER_ensures(ATAN2_OF(0, F0, T0))
#else
__CPROVER_ensures(gv_exc == 0 && G.nsqrt == 1 && G.natan2 == 1 && G.nsin == 1 && G.ncos == 1 && TRIG_OF(0))
__CPROVER_ensures(POST_ROW(ALL4, SUM4, U_FX, U_FY, U_TX, U_TY))
#endif
//@ entry LocalLinearization_distance
GV_CANARY("LocalLinearization_distance entry");
//@ end

/* ================================================================================================== */
/* direction: phi = s - o.  Row: o -1; yT +K C, xT -K S, yF -K C, xF +K S with K = 10*R2G/d.
   rhs = (observed - (s - o)) * R2CC = (observed + o - s) * R2CC, reduced by whole circles.             */
//@ contract LocalLinearization_direction
__CPROVER_requires(SHAPE2(self, obs) && NONSING(0) && TRIG(0))
__CPROVER_requires(__CPROVER_rw_ok(SP(obs), sizeof(struct StandPoint)) && !SAME(SP(obs), self) && !SAME(SP(obs), self->PD) && !SAME(SP(obs), obs))
__CPROVER_requires(FIN(SP(obs)->attr_or, 1e12))
#define RAW_direction_(BX) ((VALUE(obs) + ORIX(obs) - BX(0)) * R2CC)
#define RAW_direction RAW_direction_(BRGX)
#define RAW_direction_IN RAW_direction_(BRGX_IN)
#if LIN_VALUES
__CPROVER_requires(SP(obs)->test_or) /* the exception path is covered by the structure check */
__CPROVER_requires(RAW_OK(RAW_direction_IN)) /* stated precondition (over the inputs), used through LIN_INST_RAW */
#endif
__CPROVER_requires(PRE_UNK5(U_OR, U_FX, U_FY, U_TX, U_TY))
__CPROVER_assigns(self->rhs, self->size, self->maxn, self->coeff, self->index, G, gv_exc, SP(obs)->indx_or,
                  F0->ix_, F0->iy_, T0->ix_, T0->iy_)
#if LIN_VALUES
__CPROVER_ensures(SQRT_OF(0, F0, T0))
__CPROVER_ensures(gv_exc == 0 ==> G.raw == RAW_direction)
__CPROVER_ensures(gv_exc == 0 ==> COEF_(U_OR, -1.0))
__CPROVER_ensures(gv_exc == 0 ==> (COEF_(U_FY, -(KANG(DISTX(0)) * P.C[0])) && COEF_(U_FX, KANG(DISTX(0)) * P.S[0])))
__CPROVER_ensures(gv_exc == 0 ==> (COEF_(U_TY, KANG(DISTX(0)) * P.C[0]) && COEF_(U_TX, -(KANG(DISTX(0)) * P.S[0]))))
__CPROVER_ensures(ATAN2_OF(0, F0, T0))
#else
__CPROVER_ensures((gv_exc == 0) == (SP(obs)->test_or != 0))
__CPROVER_ensures(G.nsqrt == 1 && G.natan2 == 1 && G.nsin == 1 && G.ncos == 1 && TRIG_OF(0) && HINTS_EQ(0))
__CPROVER_ensures(gv_exc == 0 ==> (ORIX(obs) == SP(obs)->attr_or && REDUCED(self)))
__CPROVER_ensures(gv_exc == 0 ==> POST_ROW(ALL5, SUM5, U_OR, U_FX, U_FY, U_TX, U_TY))
#endif
//@ entry LocalLinearization_direction
GV_CANARY("LocalLinearization_direction entry");
//@ pre LocalLinearization_direction 1
G.raw = a;
LIN_INST_RAW(a, RAW_direction);
//@ loop LocalLinearization_direction 1
__CPROVER_assigns(a, G.j1)
__CPROVER_loop_invariant(0 <= G.j1 && G.j1 <= 3 && a == SUBN(G.raw, G.j1) && (G.j1 > 0 ==> a >= -200e4))
__CPROVER_decreases(3 - G.j1)
//@ tail LocalLinearization_direction 1
G.j1++;
//@ loop LocalLinearization_direction 2
__CPROVER_assigns(a, G.j2)
__CPROVER_loop_invariant(0 <= G.j2 && G.j2 <= 3 && (G.j1 == 0 || G.j2 == 0) && a == ADDN(SUBN(G.raw, G.j1), G.j2) && a < 200e4)
__CPROVER_decreases(3 - G.j2)
//@ tail LocalLinearization_direction 2
G.j2++;
//@ end


/* ================================================================================================== */
/* s_distance: phi = sd = sqrt(dx^2+dy^2+dz^2).  Row: T: dx/sd, dy/sd, dz/sd; F: negatives.
   rhs = (observed - sd) * 1e3 mm.  sd == 0 (coincident points): exception.                              */
//@ contract LocalLinearization_s_distance
#define SD0 P.sqrt_ret[0]
__CPROVER_requires(SHAPE2(self, obs) && SD0 <= 1e10 && PRE_UNK6(U_FX, U_FY, U_FZ, U_TX, U_TY, U_TZ))
#if LIN_VALUES
__CPROVER_requires(!(SD0 == 0)) /* the exception path is covered by the structure check */
#endif
__CPROVER_assigns(self->rhs, self->size, self->maxn, self->coeff, self->index, G, gv_exc, F0->ix_, F0->iy_, F0->iz_,
                  T0->ix_, T0->iy_, T0->iz_)
#if LIN_VALUES
__CPROVER_ensures(G.sqrt_arg[0] == DX(F0, T0) * DX(F0, T0) + DY(F0, T0) * DY(F0, T0) + DZ(F0, T0) * DZ(F0, T0))
__CPROVER_ensures(gv_exc == 0 ==> self->rhs == (VALUE(obs) - SD0) * 1e3)
__CPROVER_ensures(gv_exc == 0 ==> (COEF_(U_FY, -(DY(F0, T0) / SD0)) && COEF_(U_FX, -(DX(F0, T0) / SD0)) && COEF_(U_FZ, -(DZ(F0, T0) / SD0))))
__CPROVER_ensures(gv_exc == 0 ==> (COEF_(U_TY, DY(F0, T0) / SD0) && COEF_(U_TX, DX(F0, T0) / SD0) && COEF_(U_TZ, DZ(F0, T0) / SD0)))
#else
__CPROVER_ensures(G.nsqrt == 1 && (gv_exc != 0) == (SD0 == 0))
__CPROVER_ensures(gv_exc == 0 ==> POST_ROW(ALL6, SUM6, U_FX, U_FY, U_FZ, U_TX, U_TY, U_TZ))
#endif
//@ entry LocalLinearization_s_distance
GV_CANARY("LocalLinearization_s_distance entry");
//@ end

/* ================================================================================================== */
/* z_angle: phi = acos(dz/sd).  With k = 10*R2G/(d sd^2): T: x k dz dx, y k dz dy, z -k d d; F: negatives.
   A second-face reading (observed > pi) observes 2pi - phi: the code accounts for it in the computed value
   (za = 2pi - za); the ROW must then be the negative one (postcondition 5).
   rhs = (observed - computed) * R2CC cc; no reduction loops: for 0 < observed < 2pi the difference is within
   (-pi, pi] by construction.                                                                              */
//@ contract LocalLinearization_z_angle
#define ZD P.sqrt_ret[0]
#define ZSD P.sqrt_ret[1]
#define ZK (10 * R2G / (ZD * ZSD * ZSD))
#define ZPX (ZK * DZ(F0, T0) * DX(F0, T0))
#define ZPY (ZK * DZ(F0, T0) * DY(F0, T0))
#define ZPZ (-ZK * ZD * ZD)
#define ZA_COMPUTED (VALUE(obs) > M_PI ? 2 * M_PI - P.acos_ret : P.acos_ret)
__CPROVER_requires(SHAPE2(self, obs) && ZD <= 1e10 && ZSD <= 1e10 && PRE_UNK6(U_FX, U_FY, U_FZ, U_TX, U_TY, U_TZ))
#if LIN_VALUES
__CPROVER_requires(!(ZD == 0) && !(ZSD == 0)) /* the exception path is covered by the structure check */
__CPROVER_requires(ZD >= 1e-6 && ZSD >= 1e-6)  /* non-singular (not a vertical sight): no overflow in k */
#ifdef LIN_EXCL_FACE2
__CPROVER_requires(!(VALUE(obs) > M_PI)) /* exclusion predicate of the known finding "second-face zenith angle": first-face readings only */
#endif
#endif
__CPROVER_assigns(self->rhs, self->size, self->maxn, self->coeff, self->index, G, gv_exc, F0->ix_, F0->iy_, F0->iz_,
                  T0->ix_, T0->iy_, T0->iz_)
#if LIN_VALUES
__CPROVER_ensures(G.sqrt_arg[0] == DX(F0, T0) * DX(F0, T0) + DY(F0, T0) * DY(F0, T0) &&
                  G.sqrt_arg[1] == (DX(F0, T0) * DX(F0, T0) + DY(F0, T0) * DY(F0, T0)) + DZ(F0, T0) * DZ(F0, T0))
__CPROVER_ensures(gv_exc == 0 ==> self->rhs == (VALUE(obs) - ZA_COMPUTED) * R2CC)
__CPROVER_ensures((gv_exc == 0 && !(VALUE(obs) > M_PI)) ==> (COEF_(U_FY, -ZPY) && COEF_(U_FX, -ZPX) && COEF_(U_FZ, -ZPZ)))
__CPROVER_ensures((gv_exc == 0 && !(VALUE(obs) > M_PI)) ==> (COEF_(U_TY, ZPY) && COEF_(U_TX, ZPX) && COEF_(U_TZ, ZPZ)))
__CPROVER_ensures((gv_exc == 0 && VALUE(obs) > M_PI) ==> (COEF_(U_FY, ZPY) && COEF_(U_FX, ZPX) && COEF_(U_FZ, ZPZ) &&
                                                           COEF_(U_TY, -ZPY) && COEF_(U_TX, -ZPX) && COEF_(U_TZ, -ZPZ)))
__CPROVER_ensures(gv_exc == 0 ==> G.acos_arg == DZ(F0, T0) / ZSD)
#else
__CPROVER_ensures((gv_exc != 0) == (ZD == 0 || ZSD == 0))
__CPROVER_ensures(gv_exc == 0 ==> (G.nsqrt == 2 && G.nacos == 1))
__CPROVER_ensures(gv_exc == 0 ==> POST_ROW(ALL6, SUM6, U_FX, U_FY, U_FZ, U_TX, U_TY, U_TZ))
#endif
//@ entry LocalLinearization_z_angle
GV_CANARY("LocalLinearization_z_angle entry");
//@ end

/* ================================================================================================== */
/* angle: phi = s2 - s1 (mod 2pi); bearing #0 to bs (= to), #1 to fs.  Ki = 10*R2G/di.
   fs: y +K2 C2, x -K2 S2;  bs: y -K1 C1, x +K1 S1;  F: y -K2 C2 + K1 C1, x +K2 S2 - K1 S1.
   rhs = (observed - (s2 - s1 [+2pi])) * R2CC, reduced by whole circles.
   Stated precondition: from, bs, fs pairwise distinct (gama allows bs == fs since 1.3.31; then the row lists the
   target's unknowns twice with cancelling coefficients -- not covered here).                              */
//@ contract LocalLinearization_angle
#define ANG_DS0(BX) (BX(1) - BX(0))
#define ANG_DS(BX) (ANG_DS0(BX) < 0 ? ANG_DS0(BX) + 2 * M_PI : ANG_DS0(BX))
#define RAW_angle_(BX) ((VALUE(obs) - ANG_DS(BX)) * R2CC)
#define RAW_angle RAW_angle_(BRGX)
#define RAW_angle_IN RAW_angle_(BRGX_IN)
#define K1C1 (KANG(DISTX(0)) * P.C[0])
#define K1S1 (KANG(DISTX(0)) * P.S[0])
#define K2C2 (KANG(DISTX(1)) * P.C[1])
#define K2S2 (KANG(DISTX(1)) * P.S[1])
__CPROVER_requires(SHAPE3(self, obs) && NONSING(0) && NONSING(1) && TRIG(0) && TRIG(1))
__CPROVER_requires(PRE_UNK6(U_FX, U_FY, U_TX, U_TY, U_SX, U_SY))
#if LIN_VALUES
__CPROVER_requires(RAW_OK(RAW_angle_IN)) /* stated precondition (over the inputs), used through LIN_INST_RAW */
#endif
__CPROVER_assigns(self->rhs, self->size, self->maxn, self->coeff, self->index, G, F0->ix_, F0->iy_, T0->ix_, T0->iy_, S0->ix_, S0->iy_)
#if LIN_VALUES
__CPROVER_ensures(SQRT_OF(0, F0, T0) && SQRT_OF(1, F0, S0))
__CPROVER_ensures(G.raw == RAW_angle)
__CPROVER_ensures(COEF_(U_FY, -K2C2 + K1C1) && COEF_(U_FX, K2S2 - K1S1))
__CPROVER_ensures(COEF_(U_TY, -K1C1) && COEF_(U_TX, K1S1))
__CPROVER_ensures(COEF_(U_SY, K2C2) && COEF_(U_SX, -K2S2))
__CPROVER_ensures(ATAN2_OF(0, F0, T0) && ATAN2_OF(1, F0, S0))
#else
__CPROVER_ensures(gv_exc == 0 && G.nsqrt == 2 && G.natan2 == 2 && G.nsin == 2 && G.ncos == 2 && TRIG_OF(0) && TRIG_OF(1) && HINTS_EQ(0) && HINTS_EQ(1))
__CPROVER_ensures(REDUCED(self))
__CPROVER_ensures(POST_ROW(ALL6, SUM6, U_FX, U_FY, U_TX, U_TY, U_SX, U_SY))
#endif
//@ entry LocalLinearization_angle
GV_CANARY("LocalLinearization_angle entry");
//@ pre LocalLinearization_angle 1
G.raw = a;
LIN_INST_RAW(a, RAW_angle);
//@ loop LocalLinearization_angle 1
__CPROVER_assigns(a, G.j1)
__CPROVER_loop_invariant(0 <= G.j1 && G.j1 <= 3 && a == SUBN(G.raw, G.j1) && (G.j1 > 0 ==> a >= -200e4))
__CPROVER_decreases(3 - G.j1)
//@ tail LocalLinearization_angle 1
G.j1++;
//@ loop LocalLinearization_angle 2
__CPROVER_assigns(a, G.j2)
__CPROVER_loop_invariant(0 <= G.j2 && G.j2 <= 3 && (G.j1 == 0 || G.j2 == 0) && a == ADDN(SUBN(G.raw, G.j1), G.j2) && a < 200e4)
__CPROVER_decreases(3 - G.j2)
//@ tail LocalLinearization_angle 2
G.j2++;
//@ end

/* ================================================================================================== */
/* xNorthAngle: bearing of north in radians (see NORTH_GON above).                                      */
//@ contract PointData_xNorthAngle
__CPROVER_requires(__CPROVER_r_ok(self, sizeof(struct PointData)) && CS_OK(self))
__CPROVER_assigns()
__CPROVER_ensures(__CPROVER_return_value == NORTH_GON(self) * G2R)
//@ entry PointData_xNorthAngle
GV_CANARY("PointData_xNorthAngle entry");
//@ end

/* ================================================================================================== */
/* azimuth: phi = s - N.  Row as direction without the orientation.  rhs = (observed + N - s) * R2CC reduced.
   N is the value returned by the extracted PointData::xNorthAngle (recorded by the shim lin_north); the structure
   check proves N == NORTH_GON * G2R for the coordinate system at hand, check xNorthAngle proves it for the function
   in isolation.                                                                                          */
//@ contract LocalLinearization_azimuth
#define RAW_azimuth_(N, BX) ((VALUE(obs) + N - BX(0)) * R2CC)
#define RAW_azimuth RAW_azimuth_(G.north, BRGX)
#define RAW_azimuth_IN RAW_azimuth_(NORTH_GON(self->PD) * G2R, BRGX_IN)
__CPROVER_requires(SHAPE2(self, obs) && CS_OK(self->PD) && NONSING(0) && TRIG(0) && PRE_UNK4(U_FX, U_FY, U_TX, U_TY))
#if LIN_VALUES
__CPROVER_requires(RAW_OK(RAW_azimuth_IN)) /* stated precondition (over the inputs), used through LIN_INST_RAW */
#endif
__CPROVER_assigns(self->rhs, self->size, self->maxn, self->coeff, self->index, G, F0->ix_, F0->iy_, T0->ix_, T0->iy_)
#if LIN_VALUES
__CPROVER_ensures(SQRT_OF(0, F0, T0))
__CPROVER_ensures(G.raw == RAW_azimuth)
__CPROVER_ensures(COEF_(U_FY, -(KANG(DISTX(0)) * P.C[0])) && COEF_(U_FX, KANG(DISTX(0)) * P.S[0]))
__CPROVER_ensures(COEF_(U_TY, KANG(DISTX(0)) * P.C[0]) && COEF_(U_TX, -(KANG(DISTX(0)) * P.S[0])))
__CPROVER_ensures(ATAN2_OF(0, F0, T0))
#else
__CPROVER_ensures(gv_exc == 0 && G.nsqrt == 1 && G.natan2 == 1 && G.nsin == 1 && G.ncos == 1 && TRIG_OF(0) && HINTS_EQ(0))
__CPROVER_ensures(G.north == NORTH_GON(self->PD) * G2R)
__CPROVER_ensures(REDUCED(self))
__CPROVER_ensures(POST_ROW(ALL4, SUM4, U_FX, U_FY, U_TX, U_TY))
#endif
//@ entry LocalLinearization_azimuth
GV_CANARY("LocalLinearization_azimuth entry");
//@ pre LocalLinearization_azimuth 1
G.raw = a;
LIN_INST_RAW(a, RAW_azimuth);
//@ loop LocalLinearization_azimuth 1
__CPROVER_assigns(a, G.j1)
__CPROVER_loop_invariant(0 <= G.j1 && G.j1 <= 3 && a == SUBN(G.raw, G.j1) && (G.j1 > 0 ==> a >= -200e4))
__CPROVER_decreases(3 - G.j1)
//@ tail LocalLinearization_azimuth 1
G.j1++;
//@ loop LocalLinearization_azimuth 2
__CPROVER_assigns(a, G.j2)
__CPROVER_loop_invariant(0 <= G.j2 && G.j2 <= 3 && (G.j1 == 0 || G.j2 == 0) && a == ADDN(SUBN(G.raw, G.j1), G.j2) && a < 200e4)
__CPROVER_decreases(3 - G.j2)
//@ tail LocalLinearization_azimuth 2
G.j2++;
//@ end

//@ harness
/* The harnesses only build memory; every precondition is a `requires` of the enforced contract. */
static struct PointData gv_pd;
static struct LocalLinearization gv_L;
static struct Observation gv_ob;
static struct StandPoint gv_sp;

static void mk_state(void)
{
  struct PointData pd; /* nondeterministic contents */
  struct LocalLinearization L;
  struct Observation ob;
  struct StandPoint sp;
  struct lin_prophecy p;
  gv_pd = pd;
  gv_L = L;
  gv_ob = ob;
  gv_sp = sp;
  P = p;
  gv_L.PD = &gv_pd;
  gv_ob.cluster = &gv_sp;
#ifdef LIN_SAMPLE
  /* checks <fn>_sample: ONE concrete point (all symbols are constants, so the SAT back end evaluates the value
     obligations by constant propagation).  A cheap second line: a wrong sign / factor / argument that changes the
     value at this point is reported even where cvc5 cannot decide the symbolic obligation in time. */
  gv_pd.pts[0].x_ = 1;  gv_pd.pts[0].y_ = 2;  gv_pd.pts[0].z_ = 3;
  gv_pd.pts[1].x_ = 4;  gv_pd.pts[1].y_ = 6;  gv_pd.pts[1].z_ = 15;
  gv_pd.pts[2].x_ = -3; gv_pd.pts[2].y_ = 5;  gv_pd.pts[2].z_ = 1;
  for (int i = 0; i < NPTS; i++) {
    gv_pd.pts[i].pst_ = xy_adjusted_ | z_adjusted_;
    gv_pd.pts[i].ix_ = gv_pd.pts[i].iy_ = gv_pd.pts[i].iz_ = 0;
  }
  gv_pd.local_coordinate_system = CS_EN;
  gv_pd.left_handed_ = 1;
  gv_L.maxn = 0;
  gv_ob.from_ = 0; gv_ob.to_ = 1; gv_ob.fs_ = 2;
  gv_ob.value_ = 1.25; gv_ob.reduction_dh_ = 0.125;
#if LIN_SAMPLE == 2
  gv_ob.value_ = 4.5;   /* a reading in the SECOND face (observed > pi): check z_angle_sample_face2 */
#endif
  gv_sp.attr_or = 0.5; gv_sp.test_or = 1; gv_sp.indx_or = 0;
  P.sqrt_ret[0] = 5; P.sqrt_ret[1] = 13;
  P.atan2_ret[0] = 0.75; P.atan2_ret[1] = -2.5;
  P.S[0] = 0.8; P.C[0] = 0.6; P.S[1] = -0.28; P.C[1] = 0.96;
  P.acos_ret = 0.4;
#endif
}

#define HARNESS(name)                                                                                      \
  void h_##name(void)                                                                                      \
  {                                                                                                        \
    mk_state();                                                                                            \
    LocalLinearization_##name(&gv_L, &gv_ob);                                                              \
    GV_CANARY("h_" #name " end");                                                                          \
  }
HARNESS(x)
HARNESS(y)
HARNESS(z)
HARNESS(xdiff)
HARNESS(ydiff)
HARNESS(zdiff)
HARNESS(h_diff)
HARNESS(distance)
HARNESS(direction)
HARNESS(s_distance)
HARNESS(z_angle)
HARNESS(angle)
HARNESS(azimuth)

void h_xNorthAngle(void)
{
  mk_state();
  double n = PointData_xNorthAngle(&gv_pd);
  GV_CANARY("h_xNorthAngle end");
}
//@ end
