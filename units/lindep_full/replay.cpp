// Native replay for unit "lindep_full" (C20): 5 unknowns, unknown 3 is not observed at all (zero column), so the only linearly dependent
// unknown is 3 and removing it leaves a full-rank system.  Which unknown does SVD::lindep flag?  exit 1 = the flag is not about unknown 3.
#include <cstdio>
#include <string>
#include <matvec/svd.h>
#include "gv_replay.h"
using namespace GNU_gama;

int main(int argc, char** argv)
{
  if (argc < 3) return 2;
  std::string c = argv[2];
  if (c != "svd_lindep") { std::printf("no native replay for check %s\n", c.c_str()); return 2; }
  Mat<> A(7, 5); A.set_zero();
  const int cols[4] = {1, 2, 4, 5};
  const double v[7][4] = {{1,0,0,0},{0,1,0,0},{0,0,1,0},{0,0,0,1},{1,-1,0,0},{0,1,-1,0},{0,0,1,-1}};
  for (int r = 0; r < 7; r++) for (int k = 0; k < 4; k++) A(r + 1, cols[k]) = v[r][k];
  SVD<> s(A);
  int d = s.nullity(), bad = 0;
  std::printf("SVD: 5 unknowns, unknown 3 unobserved: nullity() = %d, lindep() flags unknowns:", d);
  for (int i = 1; i <= 5; i++) if (s.lindep(i)) { std::printf(" %d", i); if (i != 3) bad = 1; }
  if (!s.lindep(3)) bad = 1;
  std::printf(" -> %s\n", bad ? "NOT THE DEPENDENT UNKNOWN (the flag names singular value i, not unknown i)" : "ok");
  return bad;
}
