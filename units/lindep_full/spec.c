/* Sidecar contracts for the dependent-unknown bookkeeping of the dense solvers -- property C20
   ("the unknowns it names as indeterminable are truly linearly dependent ... and their number equals the defect").

     lib/gnu_gama/adj/adj_chol.h   AdjCholDec::solve()   WHOLE function, 41 loops; the floating-point payload is opaque
                                   AdjCholDec::lindep(n)
     lib/matvec/svd.h              SVD::lindep(i)

   What is decided for AdjCholDec (discrete part of the property; "truly dependent" is numerical and is not decided):
     B1  perm is a permutation of 1..N on return: it starts as the identity and is only changed by swaps of two positions;
     B2  invp is its inverse;  B3  0 <= nullity <= N and N0 == N - nullity;
     B4  lindep(n)  <=>  nullity > 0 and unknown n sits at a pivot position > N0.  With B1-B3 the flagged unknowns are exactly the images
         perm(N0+1..N): their number is N - N0 == nullity == defect()   (counting step: bijection, done on paper, not by CBMC);
     B5  BadRegularization leaves the object consistent: is_solved set, x := x0 (the particular solution), B1-B4 hold.
   The universally quantified facts are stated at ghost indices gv_k0 (a position) and gv_v0 (an unknown), both arbitrary; the ghost array
   gv_pos (position of each unknown) is the witness of injectivity and is updated by ghost statements next to the two writes of perm.
   The range contracts of the 33 purely numeric loops are mechanical (loop variable within its bounds, termination measure).
   Only contracts, ghost code, stubs and harnesses live here; the bodies are extracted from /repo on every run. */

//@ prelude
typedef double Float;
typedef int Index;
#define Float(...) ((double)(__VA_ARGS__ + 0))
#define Index(...) ((int)(__VA_ARGS__ + 0))
#define MAXDIM 1000000

int gv_exc;
Index gv_k0;   /* ghost: an arbitrary pivot position */
Index gv_v0;   /* ghost: an arbitrary unknown */

struct Mat    { int gv_tag; Index rows, cols; };
struct Vec    { int gv_tag; Index dim; };
struct SymMat { int gv_tag; };
struct VecI   { Index dim; Index *p; };      /* Vec<Index>: 1-based, bounds-checked */
struct VecI gv_pos;                          /* ghost: gv_pos(v) = position of unknown v in perm */

enum { ALL, SUBSET };
struct AdjCholDec {
  const struct Mat *pA;
  const struct Vec *pb;
  struct Vec x, r;
  bool is_solved;
  Index M, N;
  struct VecI perm, invp;
  struct SymMat mat;
  struct Vec rhs;
  Float s_tol;
  Index nullity;
  Index N0;
  struct Vec x0;
  struct SymMat Q0;
  int minx_t;
  Index minx_n;
  Index *minx_i;
  struct Mat G;
};

/* opaque payload: every element access yields a fresh symbolic double; writes go to a scratch cell */
Float gv_payload;
static inline Float *gv_cell(void) { Float v; gv_payload = v; return &gv_payload; }
static inline void gv_opaque_touch(int *tag) { int t; *tag = t; }

static inline Index gv_mat_rows(const struct Mat *m) { return m->rows; }
static inline Index gv_mat_cols(const struct Mat *m) { return m->cols; }
static inline Index gv_vec_dim(const struct Vec *v) { return v->dim; }

static inline Index *gv_veci_at(const struct VecI *v, Index i)
{
  __CPROVER_assert(1 <= i && i <= v->dim, "Vec<Index>::operator(): 1 <= i <= dim");
  return v->p + (i - 1);
}
static inline void gv_veci_reset(struct VecI *v, Index n)
{
  __CPROVER_assert(n >= 0, "Vec<Index>::reset(n): n >= 0");
  free(v->p);
  v->dim = n;
  v->p = malloc((size_t)n * sizeof(Index));
  __CPROVER_assume(v->p != NULL);
}
static inline struct VecI gv_veci_new(Index n)
{
  struct VecI v;
  __CPROVER_assert(n >= 0, "Vec<Index>(n): n >= 0");
  v.dim = n;
  v.p = malloc((size_t)n * sizeof(Index));
  __CPROVER_assume(v.p != NULL);
  return v;
}
#define GV_SWAP_INDEX(a, b) do { Index *gv_pa = &(a), *gv_pb = &(b); Index gv_t = *gv_pa; *gv_pa = *gv_pb; *gv_pb = gv_t; } while (0)


/* ---------------------------------------------------------------- SVD::lindep (item: the flag must be about UNKNOWN i) */
struct VecF { Index dim; Float *p; };
struct SVD {
  Index m, n;
  Index decomposed;
  Index defect;
  struct VecF inv_W_;     /* inv_W_(k) == 0  <=>  the k-th SINGULAR VALUE is below the tolerance */
  _Bool *gv_dep;          /* ghost, one flag per UNKNOWN: a set D of unknowns with |D| == defect whose removal leaves a full-rank system
                             (exists by linear algebra; it is what C20 lets lindep() name) */
};
static inline Float *gv_vecf_at(const struct VecF *v, Index k)
{
  __CPROVER_assert(1 <= k && k <= v->dim, "Vec<Float>::operator(): 1 <= k <= dim");
  return v->p + (k - 1);
}
#define SVD_OK(s) (1 <= (s)->n && (s)->n <= MAXDIM && (s)->inv_W_.dim == (s)->n && __CPROVER_rw_ok((s)->inv_W_.p, (size_t)(s)->n * sizeof(Float)) && \
                   __CPROVER_r_ok((s)->gv_dep, (size_t)(s)->n))
/* svd(): Golub-Reinsch decomposition A = U W V'.  What it promises about inv_W_: one entry per singular value, in the order in which the QR
   sweep happens to deliver them (the routine does not sort), zero exactly for the `defect` values below the tolerance.  Singular value k
   belongs to the k-th column of V -- a direction in the space of unknowns -- and has no relation to unknown k. */
Index gv_sv_i;   /* ghost: the index asked in the harness */
void SVD_svd(struct SVD *self)
__CPROVER_requires(gv_exc == 0 && SVD_OK(self))
__CPROVER_assigns(self->decomposed, self->defect, gv_exc, __CPROVER_object_whole(self->inv_W_.p))
__CPROVER_ensures(gv_exc == 0 || gv_exc == GV_NoConvergence || gv_exc == GV_BadRegularization)
__CPROVER_ensures(gv_exc == 0 ==> (self->decomposed && 0 <= self->defect && self->defect <= self->n))
#ifdef GV_EXCL_SVD_LINDEP_BY_SINGULAR_VALUE
/* exclusion predicate of the known finding: the cases where the i-th singular value happens to describe unknown i
   (e.g. a diagonal system in natural order) */
__CPROVER_ensures(gv_exc == 0 ==> ((self->inv_W_.p[gv_sv_i - 1] == 0) == self->gv_dep[gv_sv_i - 1]))
#endif
;

/* permutation facts, stated at an index (1-based arrays stored 0-based) */
#define PERM_AT(s, k) (!(1 <= (k) && (k) <= (s)->N) ||                                                       \
                       (1 <= (s)->perm.p[(k) - 1] && (s)->perm.p[(k) - 1] <= (s)->N && gv_pos.p[(s)->perm.p[(k) - 1] - 1] == (k)))
#define POS_AT(s, v)  (!(1 <= (v) && (v) <= (s)->N) ||                                                       \
                       (1 <= gv_pos.p[(v) - 1] && gv_pos.p[(v) - 1] <= (s)->N && (s)->perm.p[gv_pos.p[(v) - 1] - 1] == (v)))
#define INVP_AT(s, v) (!(1 <= (v) && (v) <= (s)->N) || (s)->invp.p[(v) - 1] == gv_pos.p[(v) - 1])
#define CH_HEAP_OK(s) ((s)->minx_n >= 0 && (s)->minx_n <= MAXDIM && \
                       ((s)->minx_i == NULL ? (s)->minx_n == 0 : __CPROVER_rw_ok((s)->minx_i, (size_t)(s)->minx_n * sizeof(Index))))
#define VECI_OK(v)    ((v)->p == NULL ? (v)->dim == 0 : ((v)->dim >= 0 && (v)->dim <= MAXDIM && __CPROVER_rw_ok((v)->p, (size_t)(v)->dim * sizeof(Index))))
/* state after a completed solve() (normal return or BadRegularization) */
#define CH_SOLVED(s)  ((s)->is_solved && 0 <= (s)->N && (s)->N <= MAXDIM && 0 <= (s)->nullity && (s)->nullity <= (s)->N &&          \
                       (s)->N0 == (s)->N - (s)->nullity && (s)->perm.dim == (s)->N && (s)->invp.dim == (s)->N && gv_pos.dim == (s)->N && \
                       (s)->perm.p != NULL && (s)->invp.p != NULL && gv_pos.p != NULL)
/* solve() as seen by its callers: the clauses of its own contract below, minus the frees clause */
void AdjCholDec_solve_cc(struct AdjCholDec *self)
__CPROVER_requires(gv_exc == 0 && self->pA != NULL && self->pb != NULL)
__CPROVER_requires(0 <= self->pA->rows && self->pA->rows <= MAXDIM && 0 <= self->pA->cols && self->pA->cols <= MAXDIM && self->pb->dim == self->pA->rows)
__CPROVER_requires(CH_HEAP_OK(self) && VECI_OK(&self->perm) && VECI_OK(&self->invp) && (self->minx_t == ALL || self->minx_t == SUBSET))
__CPROVER_requires(self->s_tol == self->s_tol)
__CPROVER_requires(self->is_solved ==> (self->N == self->pA->cols && CH_SOLVED(self) && PERM_AT(self, gv_k0) && POS_AT(self, gv_v0) && INVP_AT(self, gv_v0)))
__CPROVER_assigns(self->is_solved, self->M, self->N, self->perm, self->invp, self->mat, self->rhs, self->s_tol, self->nullity, self->N0, self->x0,
                  self->Q0, self->minx_n, self->minx_i, self->G, self->x, self->r, gv_exc, gv_payload, gv_pos)
__CPROVER_ensures(gv_exc == 0 || gv_exc == GV_BadRegularization)
__CPROVER_ensures(CH_SOLVED(self) && self->N == self->pA->cols)
__CPROVER_ensures((__CPROVER_old(self->is_solved) && self->perm.p == __CPROVER_old(self->perm.p)) || __CPROVER_is_fresh(self->perm.p, (size_t)self->N * sizeof(Index)))
__CPROVER_ensures((__CPROVER_old(self->is_solved) && self->invp.p == __CPROVER_old(self->invp.p)) || __CPROVER_is_fresh(self->invp.p, (size_t)self->N * sizeof(Index)))
__CPROVER_ensures((__CPROVER_old(self->is_solved) && gv_pos.p == __CPROVER_old(gv_pos.p)) || __CPROVER_is_fresh(gv_pos.p, (size_t)self->N * sizeof(Index)))
__CPROVER_ensures(PERM_AT(self, gv_k0) && POS_AT(self, gv_v0))
__CPROVER_ensures(INVP_AT(self, gv_v0))
__CPROVER_ensures(gv_exc == GV_BadRegularization ==> (self->is_solved && self->x.gv_tag == self->x0.gv_tag && self->nullity > 0))
__CPROVER_ensures(CH_HEAP_OK(self))
;
//@ end

//@ contract AdjCholDec_dot
__CPROVER_requires(CH_HEAP_OK(self) && M__p != NULL)
__CPROVER_assigns(gv_payload)
//@ loop AdjCholDec_dot 1
__CPROVER_assigns(r, k, s, gv_payload)
__CPROVER_loop_invariant(0 <= k && k <= self->minx_n)
__CPROVER_decreases((long)self->minx_n - k)
//@ end

//@ contract AdjCholDec_solve
__CPROVER_requires(gv_exc == 0 && self->pA != NULL && self->pb != NULL)
__CPROVER_requires(0 <= self->pA->rows && self->pA->rows <= MAXDIM && 0 <= self->pA->cols && self->pA->cols <= MAXDIM && self->pb->dim == self->pA->rows)
__CPROVER_requires(CH_HEAP_OK(self) && VECI_OK(&self->perm) && VECI_OK(&self->invp) && (self->minx_t == ALL || self->minx_t == SUBSET))
__CPROVER_requires(self->s_tol == self->s_tol)
__CPROVER_requires(self->is_solved ==> (self->N == self->pA->cols && CH_SOLVED(self) && PERM_AT(self, gv_k0) && POS_AT(self, gv_v0) && INVP_AT(self, gv_v0)))
__CPROVER_assigns(self->is_solved, self->M, self->N, self->perm, self->invp, self->mat, self->rhs, self->s_tol, self->nullity, self->N0, self->x0,
                  self->Q0, self->minx_n, self->minx_i, self->G, self->x, self->r, gv_exc, gv_payload, gv_pos)
__CPROVER_frees(self->perm.p, self->invp.p, self->minx_i, gv_pos.p)
__CPROVER_ensures(gv_exc == 0 || gv_exc == GV_BadRegularization)
__CPROVER_ensures(CH_SOLVED(self) && self->N == self->pA->cols)
__CPROVER_ensures((__CPROVER_old(self->is_solved) && self->perm.p == __CPROVER_old(self->perm.p)) || __CPROVER_is_fresh(self->perm.p, (size_t)self->N * sizeof(Index)))
__CPROVER_ensures((__CPROVER_old(self->is_solved) && self->invp.p == __CPROVER_old(self->invp.p)) || __CPROVER_is_fresh(self->invp.p, (size_t)self->N * sizeof(Index)))
__CPROVER_ensures((__CPROVER_old(self->is_solved) && gv_pos.p == __CPROVER_old(gv_pos.p)) || __CPROVER_is_fresh(gv_pos.p, (size_t)self->N * sizeof(Index)))
__CPROVER_ensures(PERM_AT(self, gv_k0) && POS_AT(self, gv_v0))
__CPROVER_ensures(INVP_AT(self, gv_v0))
__CPROVER_ensures(gv_exc == GV_BadRegularization ==> (self->is_solved && self->x.gv_tag == self->x0.gv_tag && self->nullity > 0))
__CPROVER_ensures(CH_HEAP_OK(self))
//@ entry AdjCholDec_solve
GV_CANARY("AdjCholDec_solve entry");
//@ pre AdjCholDec_solve 1
/* ghost: the position array has the shape of perm */
free(gv_pos.p);
gv_pos.dim = self->N;
gv_pos.p = GV_NEW(Index, self->N);   /* ghost array; 'malloc does not fail' is the global assumption of gv.h */
//@ tail AdjCholDec_solve 1
gv_pos.p[i - 1] = i;   /* ghost: unknown i sits at position i */
//@ at AdjCholDec_solve swap1
/* forall-elimination of the loop invariant PERM_AT at the two positions that are about to be exchanged, then the ghost update of gv_pos */
GV_INST(1 <= column && column <= self->N, PERM_AT(self, column));
if (ipvt) {
  GV_INST(1 <= ipvt && ipvt <= self->N, PERM_AT(self, ipvt));
  gv_pos.p[self->perm.p[ipvt - 1] - 1] = column;
  gv_pos.p[self->perm.p[column - 1] - 1] = ipvt;
}
//@ head AdjCholDec_solve 13
GV_INST(1 <= i && i <= self->N, PERM_AT(self, i));
//@ at AdjCholDec_solve aftinvp
__CPROVER_assert(INVP_AT(self, gv_v0), "B2: invp(v) is the position of unknown v, for an arbitrary unknown");
//@ loop AdjCholDec_solve 1
__CPROVER_assigns(i, gv_payload, __CPROVER_object_whole(self->perm.p), __CPROVER_object_whole(gv_pos.p))
__CPROVER_loop_invariant((1) <= i && (i <= (self->N) + 1 || i == (1)) && ((1 <= gv_k0 && gv_k0 < i) ==> (self->perm.p[gv_k0 - 1] == gv_k0 && gv_pos.p[gv_k0 - 1] == gv_k0)))
__CPROVER_decreases(GV_MAX((long)(self->N) + 1 - i, 0))
//@ loop AdjCholDec_solve 2
__CPROVER_assigns(i, gv_payload)
__CPROVER_loop_invariant((1) <= i && (i <= (self->N) + 1 || i == (1)))
__CPROVER_decreases(GV_MAX((long)(self->N) + 1 - i, 0))
//@ loop AdjCholDec_solve 3
__CPROVER_assigns(k, gv_payload, s)
__CPROVER_loop_invariant((1) <= k && (k <= (self->M) + 1 || k == (1)))
__CPROVER_decreases(GV_MAX((long)(self->M) + 1 - k, 0))
//@ loop AdjCholDec_solve 4
__CPROVER_assigns(j, gv_payload)
__CPROVER_loop_invariant((i) <= j && (j <= (self->N) + 1 || j == (i)))
__CPROVER_decreases(GV_MAX((long)(self->N) + 1 - j, 0))
//@ loop AdjCholDec_solve 5
__CPROVER_assigns(k, gv_payload, s)
__CPROVER_loop_invariant((1) <= k && (k <= (self->M) + 1 || k == (1)))
__CPROVER_decreases(GV_MAX((long)(self->M) + 1 - k, 0))
//@ loop AdjCholDec_solve 6
__CPROVER_assigns(column, gv_payload, self->nullity, __CPROVER_object_whole(self->perm.p), __CPROVER_object_whole(gv_pos.p))
__CPROVER_loop_invariant((1) <= column && (column <= (self->N) + 1 || column == (1)) && self->nullity == 0 && PERM_AT(self, gv_k0) && POS_AT(self, gv_v0))
__CPROVER_decreases(GV_MAX((long)(self->N) + 1 - column, 0))
//@ loop AdjCholDec_solve 7
__CPROVER_assigns(i, gv_payload, pivot, ipvt)
__CPROVER_loop_invariant((column+1) <= i && (i <= (self->N) + 1 || i == (column+1)) && (ipvt == 0 || (column < ipvt && ipvt < i)))
__CPROVER_decreases(GV_MAX((long)(self->N) + 1 - i, 0))
//@ loop AdjCholDec_solve 8
__CPROVER_assigns(i, gv_payload)
__CPROVER_loop_invariant((column) <= i && (i <= (self->N) + 1 || i == (column)))
__CPROVER_decreases(GV_MAX((long)(self->N) + 1 - i, 0))
//@ loop AdjCholDec_solve 9
__CPROVER_assigns(j, gv_payload)
__CPROVER_loop_invariant((i) <= j && (j <= (self->N) + 1 || j == (i)))
__CPROVER_decreases(GV_MAX((long)(self->N) + 1 - j, 0))
//@ loop AdjCholDec_solve 10
__CPROVER_assigns(j, gv_payload)
__CPROVER_loop_invariant((column+1) <= j && (j <= (self->N) + 1 || j == (column+1)))
__CPROVER_decreases(GV_MAX((long)(self->N) + 1 - j, 0))
//@ loop AdjCholDec_solve 11
__CPROVER_assigns(i, gv_payload)
__CPROVER_loop_invariant((j) <= i && (i <= (self->N) + 1 || i == (j)))
__CPROVER_decreases(GV_MAX((long)(self->N) + 1 - i, 0))
//@ loop AdjCholDec_solve 12
__CPROVER_assigns(pivot_row, gv_payload)
__CPROVER_loop_invariant((column+1) <= pivot_row && (pivot_row <= (self->N) + 1 || pivot_row == (column+1)))
__CPROVER_decreases(GV_MAX((long)(self->N) + 1 - pivot_row, 0))
//@ loop AdjCholDec_solve 13
__CPROVER_assigns(i, gv_payload, __CPROVER_object_whole(self->invp.p))
__CPROVER_loop_invariant((1) <= i && (i <= (self->N) + 1 || i == (1)) && ((1 <= gv_v0 && gv_v0 <= self->N && gv_pos.p[gv_v0 - 1] < i) ==> self->invp.p[gv_v0 - 1] == gv_pos.p[gv_v0 - 1]))
__CPROVER_decreases(GV_MAX((long)(self->N) + 1 - i, 0))
//@ loop AdjCholDec_solve 14
__CPROVER_assigns(i, gv_payload)
__CPROVER_loop_invariant((self->N0+1) <= i && (i <= (self->N) + 1 || i == (self->N0+1)))
__CPROVER_decreases(GV_MAX((long)(self->N) + 1 - i, 0))
//@ loop AdjCholDec_solve 15
__CPROVER_assigns(ii, gv_payload)
__CPROVER_loop_invariant((2) <= ii && (ii <= (self->N0) + 1 || ii == (2)))
__CPROVER_decreases(GV_MAX((long)(self->N0) + 1 - ii, 0))
//@ loop AdjCholDec_solve 16
__CPROVER_assigns(jj, gv_payload)
__CPROVER_loop_invariant((1) <= jj && (jj <= ((ii) - 1) + 1 || jj == (1)))
__CPROVER_decreases(GV_MAX((long)((ii) - 1) + 1 - jj, 0))
//@ loop AdjCholDec_solve 17
__CPROVER_assigns(ii, gv_payload)
__CPROVER_loop_invariant((1) <= ii && (ii <= (self->N0) + 1 || ii == (1)))
__CPROVER_decreases(GV_MAX((long)(self->N0) + 1 - ii, 0))
//@ loop AdjCholDec_solve 18
__CPROVER_assigns(ii, gv_payload)
__CPROVER_loop_invariant(ii <= (self->N0-1) && (ii >= (1) - 1 || ii == (self->N0-1)))
__CPROVER_decreases(GV_MAX((long)ii - (1) + 1, 0))
//@ loop AdjCholDec_solve 19
__CPROVER_assigns(jj, gv_payload)
__CPROVER_loop_invariant((ii+1) <= jj && (jj <= (self->N0) + 1 || jj == (ii+1)))
__CPROVER_decreases(GV_MAX((long)(self->N0) + 1 - jj, 0))
//@ loop AdjCholDec_solve 20
__CPROVER_assigns(i, gv_payload)
__CPROVER_loop_invariant((1) <= i && (i <= (self->M) + 1 || i == (1)))
__CPROVER_decreases(GV_MAX((long)(self->M) + 1 - i, 0))
//@ loop AdjCholDec_solve 21
__CPROVER_assigns(jj, gv_payload)
__CPROVER_loop_invariant((1) <= jj && (jj <= (self->N0) + 1 || jj == (1)))
__CPROVER_decreases(GV_MAX((long)(self->N0) + 1 - jj, 0))
//@ loop AdjCholDec_solve 22
__CPROVER_assigns(column, gv_payload)
__CPROVER_loop_invariant(column <= (self->N0) && (column >= (1) - 1 || column == (self->N0)))
__CPROVER_decreases(GV_MAX((long)column - (1) + 1, 0))
//@ loop AdjCholDec_solve 23
__CPROVER_assigns(kk, gv_payload, zii)
__CPROVER_loop_invariant((column+1) <= kk && (kk <= (self->N0) + 1 || kk == (column+1)))
__CPROVER_decreases(GV_MAX((long)(self->N0) + 1 - kk, 0))
//@ loop AdjCholDec_solve 24
__CPROVER_assigns(row, gv_payload)
__CPROVER_loop_invariant(row <= (column-1) && (row >= (1) - 1 || row == (column-1)))
__CPROVER_decreases(GV_MAX((long)row - (1) + 1, 0))
//@ loop AdjCholDec_solve 25
__CPROVER_assigns(kk, gv_payload, zij)
__CPROVER_loop_invariant((row+1) <= kk && (kk <= (self->N0) + 1 || kk == (row+1)))
__CPROVER_decreases(GV_MAX((long)(self->N0) + 1 - kk, 0))
//@ loop AdjCholDec_solve 26
__CPROVER_assigns(i, gv_payload)
__CPROVER_loop_invariant((1) <= i && (i <= (self->N0) + 1 || i == (1)))
__CPROVER_decreases(GV_MAX((long)(self->N0) + 1 - i, 0))
//@ loop AdjCholDec_solve 27
__CPROVER_assigns(j, gv_payload)
__CPROVER_loop_invariant((1) <= j && (j <= (self->nullity) + 1 || j == (1)))
__CPROVER_decreases(GV_MAX((long)(self->nullity) + 1 - j, 0))
//@ loop AdjCholDec_solve 28
__CPROVER_assigns(column, gv_payload)
__CPROVER_loop_invariant((1) <= column && (column <= (self->nullity) + 1 || column == (1)))
__CPROVER_decreases(GV_MAX((long)(self->nullity) + 1 - column, 0))
//@ loop AdjCholDec_solve 29
__CPROVER_assigns(ii, gv_payload)
__CPROVER_loop_invariant(ii <= (self->N0-1) && (ii >= (1) - 1 || ii == (self->N0-1)))
__CPROVER_decreases(GV_MAX((long)ii - (1) + 1, 0))
//@ loop AdjCholDec_solve 30
__CPROVER_assigns(jj, gv_payload)
__CPROVER_loop_invariant((ii+1) <= jj && (jj <= (self->N0) + 1 || jj == (ii+1)))
__CPROVER_decreases(GV_MAX((long)(self->N0) + 1 - jj, 0))
//@ loop AdjCholDec_solve 31
__CPROVER_assigns(i, gv_payload)
__CPROVER_loop_invariant((1) <= i && (i <= (self->nullity) + 1 || i == (1)))
__CPROVER_decreases(GV_MAX((long)(self->nullity) + 1 - i, 0))
//@ loop AdjCholDec_solve 32
__CPROVER_assigns(j, gv_payload)
__CPROVER_loop_invariant((1) <= j && (j <= (self->nullity) + 1 || j == (1)))
__CPROVER_decreases(GV_MAX((long)(self->nullity) + 1 - j, 0))
//@ loop AdjCholDec_solve 33
__CPROVER_assigns(i, gv_payload)
__CPROVER_loop_invariant((1) <= i && (i <= (self->N) + 1 || i == (1)))
__CPROVER_decreases(GV_MAX((long)(self->N) + 1 - i, 0))
//@ loop AdjCholDec_solve 34
__CPROVER_assigns(i, gv_payload, __CPROVER_object_whole(g_perm.p))
__CPROVER_loop_invariant((1) <= i && (i <= (N1) + 1 || i == (1)))
__CPROVER_decreases(GV_MAX((long)(N1) + 1 - i, 0))
//@ loop AdjCholDec_solve 35
__CPROVER_assigns(i, gv_payload, __CPROVER_object_whole(self->minx_i))
__CPROVER_loop_invariant((1) <= i && (i <= (self->N) + 1 || i == (1)) && ((1 <= gv_k0 && gv_k0 < i) ==> self->minx_i[gv_k0 - 1] == gv_k0))
__CPROVER_decreases(GV_MAX((long)(self->N) + 1 - i, 0))
//@ loop AdjCholDec_solve 36
__CPROVER_assigns(column, gv_payload, __CPROVER_object_whole(g_perm.p), self->x, self->is_solved, gv_exc)
__CPROVER_loop_invariant((1) <= column && (column <= (self->nullity) + 1 || column == (1)) && gv_exc == 0)
__CPROVER_decreases(GV_MAX((long)(self->nullity) + 1 - column, 0))
//@ loop AdjCholDec_solve 37
__CPROVER_assigns(i, gv_payload, pivot, ipvt)
__CPROVER_loop_invariant((column+1) <= i && (i <= (self->nullity) + 1 || i == (column+1)) && (ipvt == 0 || (column < ipvt && ipvt < i)))
__CPROVER_decreases(GV_MAX((long)(self->nullity) + 1 - i, 0))
//@ loop AdjCholDec_solve 38
__CPROVER_assigns(i, gv_payload)
__CPROVER_loop_invariant((1) <= i && (i <= (self->N) + 1 || i == (1)))
__CPROVER_decreases(GV_MAX((long)(self->N) + 1 - i, 0))
//@ loop AdjCholDec_solve 39
__CPROVER_assigns(col, gv_payload)
__CPROVER_loop_invariant((column+1) <= col && (col <= (N1) + 1 || col == (column+1)))
__CPROVER_decreases(GV_MAX((long)(N1) + 1 - col, 0))
//@ loop AdjCholDec_solve 40
__CPROVER_assigns(i, gv_payload)
__CPROVER_loop_invariant((1) <= i && (i <= (self->N) + 1 || i == (1)))
__CPROVER_decreases(GV_MAX((long)(self->N) + 1 - i, 0))
//@ loop AdjCholDec_solve 41
__CPROVER_assigns(i, gv_payload)
__CPROVER_loop_invariant((1) <= i && (i <= (self->N) + 1 || i == (1)))
__CPROVER_decreases(GV_MAX((long)(self->N) + 1 - i, 0))
//@ end

/* lindep(n): B4 */
//@ contract AdjCholDec_lindep
__CPROVER_requires(gv_exc == 0 && self->pA != NULL && self->pb != NULL && 1 <= n && n <= self->pA->cols)
__CPROVER_requires(0 <= self->pA->rows && self->pA->rows <= MAXDIM && 0 <= self->pA->cols && self->pA->cols <= MAXDIM && self->pb->dim == self->pA->rows)
__CPROVER_requires(CH_HEAP_OK(self) && VECI_OK(&self->perm) && VECI_OK(&self->invp) && (self->minx_t == ALL || self->minx_t == SUBSET))
__CPROVER_requires(self->s_tol == self->s_tol && gv_v0 == n)
__CPROVER_requires(self->is_solved ==> (self->N == self->pA->cols && CH_SOLVED(self) && PERM_AT(self, gv_k0) && POS_AT(self, gv_v0) && INVP_AT(self, gv_v0)))
__CPROVER_assigns(self->is_solved, self->M, self->N, self->perm, self->invp, self->mat, self->rhs, self->s_tol, self->nullity, self->N0, self->x0,
                  self->Q0, self->minx_n, self->minx_i, self->G, self->x, self->r, gv_exc, gv_payload, gv_pos)
__CPROVER_frees(self->perm.p, self->invp.p, self->minx_i, gv_pos.p)
__CPROVER_ensures(gv_exc == 0 ==> (CH_SOLVED(self) && 1 <= n && n <= self->N))
__CPROVER_ensures(gv_exc == 0 ==> (__CPROVER_return_value == (self->nullity > 0 && gv_pos.p[n - 1] > self->N - self->nullity)))
//@ entry AdjCholDec_lindep
GV_CANARY("AdjCholDec_lindep entry");
//@ end

/* SVD::lindep(i), contract from the property: the answer is the membership of UNKNOWN i in the dependent set */
//@ contract SVD_lindep
__CPROVER_requires(gv_exc == 0 && SVD_OK(self) && 1 <= i && i <= self->n)
__CPROVER_assigns(self->decomposed, self->defect, gv_exc, __CPROVER_object_whole(self->inv_W_.p))
__CPROVER_ensures(gv_exc == 0 ==> self->decomposed)
__CPROVER_ensures(gv_exc == 0 ==> (__CPROVER_return_value == self->gv_dep[i - 1]))
//@ entry SVD_lindep
GV_CANARY("SVD_lindep entry");
//@ end

//@ harness
static struct Mat gv_the_A;
static struct Vec gv_the_b;
static void mk_chol(struct AdjCholDec *S)
{
  Index m, n, nl, np, ni, ng;
  _Bool nolist, noperm, noinvp, nopos;
  __CPROVER_assume(0 <= m && m <= MAXDIM && 0 <= n && n <= MAXDIM && 0 <= nl && nl <= MAXDIM);
  __CPROVER_assume(0 <= np && np <= MAXDIM && 0 <= ni && ni <= MAXDIM && 0 <= ng && ng <= MAXDIM);
  gv_the_A.rows = m; gv_the_A.cols = n; gv_the_b.dim = m;
  S->pA = &gv_the_A;
  S->pb = &gv_the_b;
  S->minx_n = nolist ? 0 : nl;
  S->minx_i = nolist ? NULL : malloc((size_t)nl * sizeof(Index));
  if (S->is_solved) { np = n; ni = n; ng = n; noperm = noinvp = nopos = 0; }
  S->perm.dim = noperm ? 0 : np;  S->perm.p = noperm ? NULL : malloc((size_t)np * sizeof(Index));
  S->invp.dim = noinvp ? 0 : ni;  S->invp.p = noinvp ? NULL : malloc((size_t)ni * sizeof(Index));
  gv_pos.dim = nopos ? 0 : ng;    gv_pos.p = nopos ? NULL : malloc((size_t)ng * sizeof(Index));
  __CPROVER_assume((nolist || S->minx_i != NULL) && (noperm || S->perm.p != NULL) && (noinvp || S->invp.p != NULL) && (nopos || gv_pos.p != NULL));
  __CPROVER_assume(S->minx_t == ALL || S->minx_t == SUBSET);
  __CPROVER_assume(S->s_tol == S->s_tol);
  gv_exc = 0;
}
void h_chol_solve(void)
{
  struct AdjCholDec S; mk_chol(&S);
  Index k0, v0;
  gv_k0 = k0; gv_v0 = v0;
  __CPROVER_assume(!S.is_solved || (S.N == gv_the_A.cols && CH_SOLVED(&S) && PERM_AT(&S, gv_k0) && POS_AT(&S, gv_v0) && INVP_AT(&S, gv_v0)));
  AdjCholDec_solve(&S);
  GV_CANARY("h_chol_solve end");
}
void h_chol_lindep(void)
{
  struct AdjCholDec S; mk_chol(&S);
  Index k0, n;
  __CPROVER_assume(1 <= n && n <= gv_the_A.cols);
  gv_k0 = k0; gv_v0 = n;
  __CPROVER_assume(!S.is_solved || (S.N == gv_the_A.cols && CH_SOLVED(&S) && PERM_AT(&S, gv_k0) && POS_AT(&S, gv_v0) && INVP_AT(&S, gv_v0)));
  AdjCholDec_lindep(&S, n);
  GV_CANARY("h_chol_lindep end");
}
void h_svd_lindep(void)
{
  struct SVD S;
  Index n, i;
  __CPROVER_assume(1 <= n && n <= MAXDIM && 1 <= i && i <= n);
  S.n = n;
  S.inv_W_.dim = n;
  S.inv_W_.p = malloc((size_t)n * sizeof(Float));
  S.gv_dep = malloc((size_t)n);
  __CPROVER_assume(S.inv_W_.p != NULL && S.gv_dep != NULL);
  gv_exc = 0;
  gv_sv_i = i;
  SVD_lindep(&S, i);
  GV_CANARY("h_svd_lindep end");
}
//@ end
