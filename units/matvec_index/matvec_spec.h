/* Shared proof vocabulary of the C15 units (matvec_index, memrep, matvec_kernels, covmat_chol).
   Only types, representation invariants, lemma-function declarations and contract text live here: no gama
   function body.  Included from the prelude of each unit's spec.c ("../matvec_index/matvec_spec.h").

   Instantiation: Float=double, Index=int, Exc=Exception::matvec (what gama uses).

   LEMMA FUNCTIONS.  CBMC cannot decide nonlinear integer facts for symbolic dimensions (measured: every back end
   times out at d<=2^15 already for  (r-1)*cols+(c-1) < rows*cols ).  Such facts enter the CBMC checks only as the
   contract of a body-less `gv_lemma_*` function (call replaced by its contract: precondition ASSERTED, conclusion
   assumed).  Every lemma declared below is parsed from THIS text by lemmas.py and proved by z3 over mathematical
   integers, unbounded (check "lemmas" of unit matvec_index); the clause GV_MACHINE_BOUND(...) is the stated
   dimension precondition that makes machine arithmetic equal mathematical arithmetic (CBMC overflow obligations on
   the lemma expressions and on the extracted code) and is skipped by z3 (so the lemma is proved without it).   */
#ifndef MATVEC_SPEC_H
#define MATVEC_SPEC_H

typedef double Float;
typedef int Index;
#define Float(...) ((double)(__VA_ARGS__ + 0)) /* rule R3: Float() / Float(x) value construction */
#define Index(...) ((int)(__VA_ARGS__ + 0))
#define FSZ ((long)sizeof(Float))
#define MAXD 32768 /* stated precondition: dimensions <= 2^15, so that every packed-index product fits int */
#define GV_MACHINE_BOUND(x) (x)
#define GV_GHOST(...) __VA_ARGS__ /* proof-only statement injected by the spec (lemma instantiation); skipped by lemmas.py */

/* ---- class layouts (data members only; base classes as first member) --------------------------------------- */
struct MemRep { Float *rep; Index sz; };
struct Vec { struct MemRep mem; };
struct MatBase { struct MemRep mem; Index row_; Index col_; };
struct Mat { struct MatBase base; Float *pentry; };
struct SymMat { struct MatBase base; Float tol_; Index dim_; Index idf_; };
struct CovMat { struct MatBase base; Float tol_; Index band_; Index band_1; Index dim_b; };
struct BandMat { struct MatBase base; Float tol_; Index band_; };

/* ---- representation invariants ------------------------------------------------------------------------------- */
/* MemRep: sz >= 0 and (sz > 0 => rep is a live block of sz elements); sz == 0 <=> nothing is owned that is read */
#define WF_MEM(M) ((M)->sz >= 0 && ((M)->sz > 0 ==> __CPROVER_rw_ok((M)->rep, (M)->sz * sizeof(Float))))
#define WF_MAT(A) (WF_MEM(&(A)->base.mem) && 0 <= (A)->base.row_ && (A)->base.row_ <= MAXD && 0 <= (A)->base.col_ && \
                   (A)->base.col_ <= MAXD && (A)->base.mem.sz == (A)->base.row_ * (A)->base.col_)
#define WF_SYM(A) (WF_MEM(&(A)->base.mem) && 0 <= (A)->dim_ && (A)->dim_ <= MAXD && (A)->base.row_ == (A)->dim_ && \
                   (A)->base.col_ == (A)->dim_ && (A)->base.mem.sz == (A)->dim_ * ((A)->dim_ + 1) / 2)
/* CovMat(d,b): 0 <= b < d (or the empty matrix); upper triangle of the band stored by rows */
#define WF_COV(A) (WF_MEM(&(A)->base.mem) && 0 <= (A)->base.row_ && (A)->base.row_ <= MAXD && \
                   (A)->base.col_ == (A)->base.row_ && 0 <= (A)->band_ && \
                   ((A)->band_ < (A)->base.row_ || ((A)->band_ == 0 && (A)->base.row_ == 0)) && \
                   (A)->band_1 == (A)->band_ + 1 && (A)->dim_b == (A)->base.row_ - (A)->band_ && \
                   (A)->base.mem.sz == (A)->base.row_ * ((A)->band_ + 1) - (A)->band_ * ((A)->band_ + 1) / 2)
/* BandMat(d,b): diagonal storage scheme, every row owns b+1 slots */
#define WF_BAND(A) (WF_MEM(&(A)->base.mem) && 0 <= (A)->base.row_ && (A)->base.row_ <= MAXD && \
                    (A)->base.col_ == (A)->base.row_ && 0 <= (A)->band_ && (A)->band_ < MAXD && \
                    (A)->base.mem.sz == (A)->base.row_ * ((A)->band_ + 1))

/* ---- lemma functions (proved by z3, see above) --------------------------------------------------------------
   extract.py switches the automatic safety checks off for specification text; they are switched back ON for the
   lemma statements: "the lemma's integer expressions do not overflow under GV_MACHINE_BOUND" is an obligation at
   every use (that is what lets a fact about mathematical integers be used about machine ints).                 */
#pragma CPROVER check push
#pragma CPROVER check enable "signed-overflow"
#pragma CPROVER check enable "div-by-zero"
void gv_lemma_mat_bounds(int rows, int cols, int r, int c)
__CPROVER_requires(GV_MACHINE_BOUND(rows <= 32768 && cols <= 32768))
__CPROVER_requires(1 <= r && r <= rows && 1 <= c && c <= cols)
__CPROVER_assigns()
__CPROVER_ensures(0 <= (r - 1) * cols + (c - 1) && (r - 1) * cols + (c - 1) < rows * cols);

void gv_lemma_sym_bounds(int d, int i, int j)
__CPROVER_requires(GV_MACHINE_BOUND(d <= 32768))
__CPROVER_requires(1 <= j && j <= i && i <= d)
__CPROVER_assigns()
__CPROVER_ensures(0 <= i * (i - 1) / 2 + j - 1 && i * (i - 1) / 2 + j - 1 < d * (d + 1) / 2);

/* CovMat row r (1-based) starts at  (r-1)(b+1) - t(t+1)/2,  t = max(0, r-1-(d-b)),  and holds min(b,d-r)+1 elements.
   Stated over the stored fields b1 = band_1 = b+1 and db = dim_b = d-b, in the shape the code computes it. */
void gv_lemma_cov_row(int d, int b, int b1, int db, int r)
__CPROVER_requires(GV_MACHINE_BOUND(d <= 32768))
__CPROVER_requires(0 <= b && b < d && b1 == b + 1 && db == d - b && 1 <= r && r <= d)
__CPROVER_assigns()
__CPROVER_ensures(r - 1 <= db ==> (0 <= (r - 1) * b1 &&
                                   (r - 1) * b1 + (GV_MIN(b, d - r) + 1) <= d * (b + 1) - b * (b + 1) / 2))
__CPROVER_ensures(r - 1 > db ==> (0 <= (r - 1 - db) * (r - 1 - db + 1) / 2 &&
                                  0 <= (r - 1) * b1 - (r - 1 - db) * (r - 1 - db + 1) / 2 &&
                                  (r - 1) * b1 - (r - 1 - db) * (r - 1 - db + 1) / 2 + (GV_MIN(b, d - r) + 1) <=
                                    d * (b + 1) - b * (b + 1) / 2));

void gv_lemma_band_bounds(int d, int b, int r, int k)
__CPROVER_requires(GV_MACHINE_BOUND(d <= 32768 && b < 32768))
__CPROVER_requires(0 <= b && 1 <= r && r <= d && 0 <= k && k <= b)
__CPROVER_assigns()
__CPROVER_ensures(0 <= (r - 1) * (b + 1) + k && (r - 1) * (b + 1) + k < d * (b + 1));

#pragma CPROVER check pop

/* ---- contracts of the element accessors (rule R9: every other unit reaches elements through these) ---------- */
#define MV_CONTRACT_MemRep_begin \
  __CPROVER_requires(__CPROVER_r_ok(self, sizeof(struct MemRep))) __CPROVER_assigns() \
  __CPROVER_ensures(__CPROVER_return_value == self->rep)
#define MV_CONTRACT_MemRep_end \
  __CPROVER_requires(__CPROVER_r_ok(self, sizeof(struct MemRep))) __CPROVER_assigns() \
  __CPROVER_ensures(__CPROVER_return_value == self->rep + self->sz)
#define MV_CONTRACT_MemRep_size \
  __CPROVER_requires(__CPROVER_r_ok(self, sizeof(struct MemRep))) __CPROVER_assigns() \
  __CPROVER_ensures(__CPROVER_return_value == self->sz)

/* Vec(n): element n (1-based) is rep[n-1] */
#define MV_CONTRACT_Vec_at \
  __CPROVER_requires(WF_MEM(&self->mem) && 1 <= n && n <= self->mem.sz) __CPROVER_assigns() \
  __CPROVER_ensures(__CPROVER_return_value == self->mem.rep + (n - 1))
#define MV_CONTRACT_Vec_at_const \
  __CPROVER_requires(WF_MEM(&self->mem) && 1 <= n && n <= self->mem.sz) __CPROVER_assigns() \
  __CPROVER_ensures(__CPROVER_return_value == self->mem.rep[n - 1] || \
                    (__CPROVER_return_value != __CPROVER_return_value && self->mem.rep[n - 1] != self->mem.rep[n - 1]))

#define MV_SAMEVAL(x, y) ((x) == (y) || ((x) != (x) && (y) != (y))) /* equal doubles, NaN == NaN */

/* Mat(r,c): row-major, element (r,c) is rep[(r-1)*cols + (c-1)], inside the buffer */
#define MV_MAT_OFF(self, r, c) (((r) - 1) * (self)->base.col_ + ((c) - 1))
#define MV_CONTRACT_Mat_at \
  __CPROVER_requires(WF_MAT(self) && 1 <= r && r <= self->base.row_ && 1 <= c && c <= self->base.col_) \
  __CPROVER_assigns() \
  __CPROVER_ensures(__CPROVER_return_value == self->base.mem.rep + MV_MAT_OFF(self, r, c)) \
  __CPROVER_ensures(0 <= MV_MAT_OFF(self, r, c) && MV_MAT_OFF(self, r, c) < self->base.mem.sz)
#define MV_CONTRACT_Mat_at_const \
  __CPROVER_requires(WF_MAT(self) && 1 <= r && r <= self->base.row_ && 1 <= c && c <= self->base.col_) \
  __CPROVER_assigns() \
  __CPROVER_ensures(MV_SAMEVAL(__CPROVER_return_value, self->base.mem.rep[MV_MAT_OFF(self, r, c)])) \
  __CPROVER_ensures(0 <= MV_MAT_OFF(self, r, c) && MV_MAT_OFF(self, r, c) < self->base.mem.sz)

/* SymMat: lower triangle by rows, (i,j) and (j,i) are the same element */
#define MV_SYM_OFF(i, j) ((i) >= (j) ? (i) * ((i) - 1) / 2 + (j) - 1 : (j) * ((j) - 1) / 2 + (i) - 1)
#define MV_CONTRACT_SymMat_at \
  __CPROVER_requires(WF_SYM(self) && 1 <= i && i <= self->dim_ && 1 <= j && j <= self->dim_) \
  __CPROVER_assigns() \
  __CPROVER_ensures(__CPROVER_return_value == self->base.mem.rep + MV_SYM_OFF(i, j)) \
  __CPROVER_ensures(0 <= MV_SYM_OFF(i, j) && MV_SYM_OFF(i, j) < self->base.mem.sz)
#define MV_CONTRACT_SymMat_at_const \
  __CPROVER_requires(WF_SYM(self) && 1 <= i && i <= self->dim_ && 1 <= j && j <= self->dim_) \
  __CPROVER_assigns() \
  __CPROVER_ensures(MV_SAMEVAL(__CPROVER_return_value, self->base.mem.rep[MV_SYM_OFF(i, j)])) \
  __CPROVER_ensures(0 <= MV_SYM_OFF(i, j) && MV_SYM_OFF(i, j) < self->base.mem.sz)

/* CovMat::operator[](row): address of the diagonal element of `row`; the row owns min(b, d-row)+1 elements */
#define MV_COV_T(self, row) ((row) - 1 - (self)->dim_b)
#define MV_COV_ROWOFF(self, row) \
  ((row) - 1 > (self)->dim_b ? ((row) - 1) * (self)->band_1 - MV_COV_T(self, row) * (MV_COV_T(self, row) + 1) / 2 \
                             : ((row) - 1) * (self)->band_1)
/* the address as the code forms it: (rep + (row-1)*band_1) - t(t+1)/2  (two pointer steps) */
#define MV_COV_ROWPTR(self, row) \
  ((row) - 1 > (self)->dim_b ? (self)->base.mem.rep + ((row) - 1) * (self)->band_1 - MV_COV_T(self, row) * (MV_COV_T(self, row) + 1) / 2 \
                             : (self)->base.mem.rep + ((row) - 1) * (self)->band_1)
#define MV_COV_ROWLEN(self, row) (GV_MIN((self)->band_, (self)->base.row_ - (row)) + 1)
#define MV_CONTRACT_CovMat_row \
  __CPROVER_requires(WF_COV(self) && 1 <= row && row <= self->base.row_) __CPROVER_assigns() \
  __CPROVER_ensures(__CPROVER_return_value == MV_COV_ROWPTR(self, row)) \
  __CPROVER_ensures(0 <= MV_COV_ROWOFF(self, row) && \
                    MV_COV_ROWOFF(self, row) + MV_COV_ROWLEN(self, row) <= self->base.mem.sz)

/* CovMat(r,s): inside the band the element (min,max) of the stored upper triangle; outside the band the
   const accessor yields 0 and the non-const accessor raises BadIndex (exactly there) */
#define MV_LO(r, s) ((r) > (s) ? (s) : (r))
#define MV_HI(r, s) ((r) > (s) ? (r) : (s))
#define MV_COV_INBAND(self, r, s) (!(MV_HI(r, s) > MV_LO(r, s) + (self)->band_))
#define MV_COV_OFF(self, r, s) (MV_COV_ROWOFF(self, MV_LO(r, s)) + (MV_HI(r, s) - MV_LO(r, s)))
#define MV_CONTRACT_CovMat_at \
  __CPROVER_requires(WF_COV(self) && 1 <= r && r <= self->base.row_ && 1 <= s && s <= self->base.row_) \
  __CPROVER_requires(gv_exc == 0) \
  __CPROVER_assigns(gv_exc) \
  __CPROVER_ensures(MV_COV_INBAND(self, r, s) ==> (gv_exc == 0 && \
                    __CPROVER_return_value == self->base.mem.rep + MV_COV_OFF(self, r, s) && \
                    0 <= MV_COV_OFF(self, r, s) && MV_COV_OFF(self, r, s) < self->base.mem.sz)) \
  __CPROVER_ensures(!MV_COV_INBAND(self, r, s) ==> gv_exc == GV_BadIndex)
#define MV_CONTRACT_CovMat_at_const \
  __CPROVER_requires(WF_COV(self) && 1 <= r && r <= self->base.row_ && 1 <= s && s <= self->base.row_) \
  __CPROVER_assigns() \
  __CPROVER_ensures(MV_COV_INBAND(self, r, s) ==> \
                    (MV_SAMEVAL(__CPROVER_return_value, self->base.mem.rep[MV_COV_OFF(self, r, s)]) && \
                     0 <= MV_COV_OFF(self, r, s) && MV_COV_OFF(self, r, s) < self->base.mem.sz)) \
  __CPROVER_ensures(!MV_COV_INBAND(self, r, s) ==> __CPROVER_return_value == 0)

/* BandMat(r,s): row min(r,s) owns b+1 slots, slot |r-s| */
#define MV_BAND_OFF(self, r, s) ((MV_LO(r, s) - 1) * ((self)->band_ + 1) + (MV_HI(r, s) - MV_LO(r, s)))
#define MV_CONTRACT_BandMat_at \
  __CPROVER_requires(WF_BAND(self) && 1 <= r && r <= self->base.row_ && 1 <= s && s <= self->base.row_) \
  __CPROVER_requires(gv_exc == 0) \
  __CPROVER_assigns(gv_exc) \
  __CPROVER_ensures(MV_COV_INBAND(self, r, s) ==> (gv_exc == 0 && \
                    __CPROVER_return_value == self->base.mem.rep + MV_BAND_OFF(self, r, s) && \
                    0 <= MV_BAND_OFF(self, r, s) && MV_BAND_OFF(self, r, s) < self->base.mem.sz)) \
  __CPROVER_ensures(!MV_COV_INBAND(self, r, s) ==> gv_exc == GV_BadIndex)
#define MV_CONTRACT_BandMat_at_const \
  __CPROVER_requires(WF_BAND(self) && 1 <= r && r <= self->base.row_ && 1 <= s && s <= self->base.row_) \
  __CPROVER_assigns() \
  __CPROVER_ensures(MV_COV_INBAND(self, r, s) ==> \
                    (MV_SAMEVAL(__CPROVER_return_value, self->base.mem.rep[MV_BAND_OFF(self, r, s)]) && \
                     0 <= MV_BAND_OFF(self, r, s) && MV_BAND_OFF(self, r, s) < self->base.mem.sz)) \
  __CPROVER_ensures(!MV_COV_INBAND(self, r, s) ==> __CPROVER_return_value == 0)
#define MV_CONTRACT_BandMat_row \
  __CPROVER_requires(WF_BAND(self) && 1 <= row && row <= self->base.row_) __CPROVER_assigns() \
  __CPROVER_ensures(__CPROVER_return_value == self->base.mem.rep + (row - 1) * (self->band_ + 1)) \
  __CPROVER_ensures(0 <= (row - 1) * (self->band_ + 1) && (row - 1) * (self->band_ + 1) + self->band_ < self->base.mem.sz)

#define MV_CONTRACT_MatBase_rows \
  __CPROVER_requires(__CPROVER_r_ok(self, sizeof(struct MatBase))) __CPROVER_assigns() \
  __CPROVER_ensures(__CPROVER_return_value == self->row_)
#define MV_CONTRACT_MatBase_cols \
  __CPROVER_requires(__CPROVER_r_ok(self, sizeof(struct MatBase))) __CPROVER_assigns() \
  __CPROVER_ensures(__CPROVER_return_value == self->col_)

#endif
