/* Sidecar contracts for the element accessors of lib/matvec (C15-U1): operator() / operator[] of VecBase, Mat,
   SymMat, CovMat, BandMat (Float=double, Index=int).  Bodies are extracted from /repo on every run.
   The contracts themselves are in matvec_spec.h (shared with the other C15 units, rule R9).

   Division of labour (DESIGN section 3 item 5):
     CBMC (checks vec_at .. bandmat_at): on the extracted bodies -- no signed overflow under the stated bound
       d <= 2^15, branch structure (BadIndex exactly outside the band), frame (nothing assigned), the returned
       address is rep + <layout formula> and lies inside the buffer of `sz` elements; the nonlinear bound itself
       enters through a gv_lemma_* contract.
     z3 (check lemmas): the gv_lemma_* statements AND, independently, bounds / injectivity / symmetry / row
       recursion of the index expression obtained by symbolic execution of the same generated C text.          */

//@ prelude
#include "matvec_spec.h"
int gv_exc;

static void mk_mem(struct MemRep *M, Index n)
{
  M->sz = n;
  M->rep = NULL; /* the C++ object holds nullptr when empty */
  if (n > 0) {
    M->rep = malloc((size_t)n * sizeof(Float));
    __CPROVER_assume(M->rep != NULL);
  }
}
//@ end

//@ contract MemRep_begin
MV_CONTRACT_MemRep_begin
//@ contract MemRep_begin_const
MV_CONTRACT_MemRep_begin
//@ contract MatBase_cols
MV_CONTRACT_MatBase_cols
//@ end

/* ---- Vec ---------------------------------------------------------------------------------------------------- */
//@ contract Vec_at
MV_CONTRACT_Vec_at
//@ entry Vec_at
GV_CANARY("Vec_at entry");
//@ contract Vec_at_const
MV_CONTRACT_Vec_at_const
//@ entry Vec_at_const
GV_CANARY("Vec_at_const entry");
//@ end

/* ---- Mat ---------------------------------------------------------------------------------------------------- */
//@ contract Mat_at
MV_CONTRACT_Mat_at
//@ entry Mat_at
GV_CANARY("Mat_at entry");
GV_GHOST(gv_lemma_mat_bounds(self->base.row_, self->base.col_, r, c);)
//@ contract Mat_at_const
MV_CONTRACT_Mat_at_const
//@ entry Mat_at_const
GV_CANARY("Mat_at_const entry");
GV_GHOST(gv_lemma_mat_bounds(self->base.row_, self->base.col_, r, c);)
//@ end

/* ---- SymMat ------------------------------------------------------------------------------------------------- */
//@ contract SymMat_at
MV_CONTRACT_SymMat_at
//@ entry SymMat_at
GV_CANARY("SymMat_at entry");
GV_GHOST(if (i >= j) gv_lemma_sym_bounds(self->dim_, i, j); else gv_lemma_sym_bounds(self->dim_, j, i);)
//@ contract SymMat_at_const
MV_CONTRACT_SymMat_at_const
//@ entry SymMat_at_const
GV_CANARY("SymMat_at_const entry");
GV_GHOST(if (i >= j) gv_lemma_sym_bounds(self->dim_, i, j); else gv_lemma_sym_bounds(self->dim_, j, i);)
//@ end

/* ---- CovMat ------------------------------------------------------------------------------------------------- */
//@ contract CovMat_row
MV_CONTRACT_CovMat_row
//@ entry CovMat_row
GV_CANARY("CovMat_row entry");
GV_GHOST(gv_lemma_cov_row(self->base.row_, self->band_, self->band_1, self->dim_b, row);)
//@ contract CovMat_row_const
MV_CONTRACT_CovMat_row
//@ entry CovMat_row_const
GV_CANARY("CovMat_row_const entry");
GV_GHOST(gv_lemma_cov_row(self->base.row_, self->band_, self->band_1, self->dim_b, row);)
//@ contract CovMat_at
MV_CONTRACT_CovMat_at
//@ entry CovMat_at
GV_CANARY("CovMat_at entry");
//@ contract CovMat_at_const
MV_CONTRACT_CovMat_at_const
//@ entry CovMat_at_const
GV_CANARY("CovMat_at_const entry");
//@ end

/* ---- BandMat ------------------------------------------------------------------------------------------------ */
//@ contract BandMat_at
MV_CONTRACT_BandMat_at
//@ entry BandMat_at
GV_CANARY("BandMat_at entry");
GV_GHOST(if (MV_COV_INBAND(self, r, s)) gv_lemma_band_bounds(self->base.row_, self->band_, MV_LO(r, s), MV_HI(r, s) - MV_LO(r, s));)
//@ contract BandMat_at_const
MV_CONTRACT_BandMat_at_const
//@ entry BandMat_at_const
GV_CANARY("BandMat_at_const entry");
GV_GHOST(if (MV_COV_INBAND(self, r, s)) gv_lemma_band_bounds(self->base.row_, self->band_, MV_LO(r, s), MV_HI(r, s) - MV_LO(r, s));)
//@ contract BandMat_row
MV_CONTRACT_BandMat_row
//@ entry BandMat_row
GV_CANARY("BandMat_row entry");
GV_GHOST(gv_lemma_band_bounds(self->base.row_, self->band_, row, self->band_);)
//@ end

//@ harness
#define INBUF(p, M) (SAME(p, (M)->rep) && 0 <= OFF(p) && OFF(p) < (long)(M)->sz * FSZ && OFF(p) % FSZ == 0)

void h_vec_at(void)
{
  struct Vec v;
  Index sz, n;
  __CPROVER_assume(0 <= sz);
  mk_mem(&v.mem, sz);
  __CPROVER_assume(1 <= n && n <= sz);
  Float *p = Vec_at(&v, n);
  Float x = Vec_at_const(&v, n);
  __CPROVER_assert(INBUF(p, &v.mem), "Vec(n) lies inside the buffer");
  __CPROVER_assert(MV_SAMEVAL(x, *p), "const and non-const Vec(n) are the same element");
  GV_CANARY("h_vec_at end");
}

static void mk_mat(struct Mat *A)
{
  Index rows, cols;
  __CPROVER_assume(0 <= rows && rows <= MAXD && 0 <= cols && cols <= MAXD);
  A->base.row_ = rows;
  A->base.col_ = cols;
  mk_mem(&A->base.mem, rows * cols);
}

void h_mat_at(void)
{
  struct Mat A;
  mk_mat(&A);
  Index r, c;
  __CPROVER_assume(1 <= r && r <= A.base.row_ && 1 <= c && c <= A.base.col_);
  Float *p = Mat_at(&A, r, c);
  Float x = Mat_at_const(&A, r, c);
  __CPROVER_assert(INBUF(p, &A.base.mem), "Mat(r,c) lies inside the buffer");
  __CPROVER_assert(MV_SAMEVAL(x, *p), "const and non-const Mat(r,c) are the same element");
  GV_CANARY("h_mat_at end");
}

static void mk_sym(struct SymMat *A)
{
  Index d;
  __CPROVER_assume(0 <= d && d <= MAXD);
  A->dim_ = A->base.row_ = A->base.col_ = d;
  A->idf_ = 0;
  mk_mem(&A->base.mem, d * (d + 1) / 2);
}

void h_symmat_at(void)
{
  struct SymMat A;
  mk_sym(&A);
  Index i, j;
  __CPROVER_assume(1 <= i && i <= A.dim_ && 1 <= j && j <= A.dim_);
  Float *p = SymMat_at(&A, i, j);
  Float x = SymMat_at_const(&A, j, i); /* swapped on purpose: (j,i) must be the same element as (i,j) */
  __CPROVER_assert(INBUF(p, &A.base.mem), "SymMat(i,j) lies inside the buffer");
  __CPROVER_assert(MV_SAMEVAL(x, *p), "const SymMat(j,i) and non-const SymMat(i,j) are the same element");
  GV_CANARY("h_symmat_at end");
}

static void mk_cov(struct CovMat *A)
{
  Index d, b;
  __CPROVER_assume(0 <= d && d <= MAXD && 0 <= b && (b < d || (b == 0 && d == 0)));
  A->base.row_ = A->base.col_ = d;
  A->band_ = b;
  A->band_1 = b + 1;
  A->dim_b = d - b;
  mk_mem(&A->base.mem, d * (b + 1) - b * (b + 1) / 2);
}

void h_covmat_row(void)
{
  struct CovMat A;
  mk_cov(&A);
  Index row;
  __CPROVER_assume(1 <= row && row <= A.base.row_);
  Float *p = CovMat_row(&A, row);
  const Float *q = CovMat_row_const(&A, row);
  __CPROVER_assert(INBUF(p, &A.base.mem), "CovMat[row] lies inside the buffer");
  __CPROVER_assert(OFF(p) + FSZ * (GV_MIN(A.band_, A.base.row_ - row) + 1) <= (long)A.base.mem.sz * FSZ,
                   "the whole row (diagonal + min(b,d-row) elements) lies inside the buffer");
  __CPROVER_assert(p == q, "const and non-const CovMat[row] agree");
  GV_CANARY("h_covmat_row end");
}

void h_covmat_at(void)
{
  struct CovMat A;
  mk_cov(&A);
  Index r, s;
  __CPROVER_assume(1 <= r && r <= A.base.row_ && 1 <= s && s <= A.base.row_);
  gv_exc = 0;
  Float *p = CovMat_at(&A, r, s);
  int e1 = gv_exc;
  Float x = CovMat_at_const(&A, s, r); /* swapped on purpose */
  int inband = (r > s ? r - s : s - r) <= A.band_;
  __CPROVER_assert(inband ? e1 == 0 : e1 == GV_BadIndex, "non-const CovMat(r,s) raises BadIndex exactly outside the band");
  __CPROVER_assert(!inband || INBUF(p, &A.base.mem), "CovMat(r,s) inside the band lies inside the buffer");
  __CPROVER_assert(inband ? MV_SAMEVAL(x, *p) : x == 0,
                   "const CovMat(s,r): the same element as non-const CovMat(r,s) inside the band, 0 outside");
  GV_CANARY("h_covmat_at end");
}

static void mk_band(struct BandMat *A)
{
  Index d, b;
  __CPROVER_assume(0 <= d && d <= MAXD && 0 <= b && b < MAXD);
  A->base.row_ = A->base.col_ = d;
  A->band_ = b;
  mk_mem(&A->base.mem, d * (b + 1));
}

void h_bandmat_at(void)
{
  struct BandMat A;
  mk_band(&A);
  Index r, s;
  __CPROVER_assume(1 <= r && r <= A.base.row_ && 1 <= s && s <= A.base.row_);
  gv_exc = 0;
  Float *p = BandMat_at(&A, r, s);
  int e1 = gv_exc;
  Float x = BandMat_at_const(&A, s, r); /* swapped on purpose */
  Float *w = BandMat_row(&A, MV_LO(r, s));
  int inband = (r > s ? r - s : s - r) <= A.band_;
  __CPROVER_assert(inband ? e1 == 0 : e1 == GV_BadIndex, "non-const BandMat(r,s) raises BadIndex exactly outside the band");
  __CPROVER_assert(!inband || INBUF(p, &A.base.mem), "BandMat(r,s) inside the band lies inside the buffer");
  __CPROVER_assert(inband ? MV_SAMEVAL(x, *p) : x == 0,
                   "const BandMat(s,r): the same element as non-const BandMat(r,s) inside the band, 0 outside");
  __CPROVER_assert(!inband || p == w + (MV_HI(r, s) - MV_LO(r, s)), "BandMat[row] + k is BandMat(row,row+k)");
  GV_CANARY("h_bandmat_at end");
}

/* Why the bound d <= 2^15 is stated: with dimensions up to 2^16 the int products of the REAL index expressions wrap.
   Canary form (must FAIL): "the machine offset equals the mathematical offset".  Compiled without
   --signed-overflow-check (wrap-around semantics) in check bound_needed.                                       */
void h_bound_needed(void)
{
  struct Mat A;
  Index rows, cols, r, c;
  __CPROVER_assume(1 <= rows && rows <= 65536 && 1 <= cols && cols <= 65536 && 1 <= r && r <= rows && 1 <= c && c <= cols);
  A.base.row_ = rows;
  A.base.col_ = cols;
  A.base.mem.sz = 0;
  A.base.mem.rep = malloc(8);
  __CPROVER_assume(A.base.mem.rep);
  Float *p = Mat_at(&A, r, c);
  __CPROVER_assert(OFF(p) == FSZ * (((long)r - 1) * cols + (c - 1)),
                   "GV_CANARY Mat offset equals its mathematical value for dimensions up to 2^16 (must fail: the bound is needed)");
  struct SymMat S;
  Index i, j;
  __CPROVER_assume(1 <= i && i <= 65536 && 1 <= j && j <= i);
  S.dim_ = 65536;
  S.base.mem.sz = 0;
  S.base.mem.rep = A.base.mem.rep;
  Float *q = SymMat_at(&S, i, j);
  __CPROVER_assert(OFF(q) == FSZ * ((long)i * (i - 1) / 2 + j - 1),
                   "GV_CANARY SymMat offset equals its mathematical value for dimensions up to 2^16 (must fail: the bound is needed)");
  GV_CANARY("h_bound_needed end");
}
//@ end
