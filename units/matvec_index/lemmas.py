#!/usr/bin/env python3
"""z3 lemmas for the packed / banded index maps of lib/matvec (C15-U1, DESIGN section 3 item 5).

usage: python3-vt lemmas.py <generated C file> <repo>

Nothing about the index arithmetic is written down here.  The script
  1. parses the accessor functions out of the GENERATED C file (the text extract.py copied from /repo on this run) with
     a small recursive-descent parser for the straight-line C subset they use, and executes them symbolically over z3
     Int terms (mathematical integers, unbounded): + - * /, comparisons, ?:, if/else, prefix --, -= += =, calls into
     other extracted functions, pointer + integer, p[i], *p, &x.  Anything else -> exit 2;
  2. pulls the allocation size expressions out of the constructors' initialiser lists and the reset() bodies in <repo>;
  3. parses the gv_lemma_* declarations of matvec_spec.h (the nonlinear facts the CBMC checks import) and proves them;
  4. states and proves: offset in [0,size), injectivity inside the triangle/band, symmetry, const == non-const,
     the row recursion of CovMat::operator[], BadIndex exactly outside the band.
Every integer division generates the side condition "dividend >= 0 and divisor > 0" under the path condition, which z3
must prove as well (C truncating division == mathematical floor division there).
Output: one line 'LEMMA <name>: proved' / 'LEMMA <name>: FAILED <model>' per lemma.  Exit 0 all proved, 1 some failed,
2 could not translate.
"""
import os
import re
import sys

import z3


class Untranslatable(Exception):
    pass


def die(msg):
    print('lemmas.py: cannot translate: ' + msg)
    sys.exit(2)


# ------------------------------------------------------------------------------------------------ lexer
TOK = re.compile(r'\s*(?:(\d+)|([A-Za-z_]\w*)|(==>|->|--|\+\+|<=|>=|==|!=|&&|\|\||-=|\+=|[-+*/%<>=!&|?:;,.(){}\[\]]))')


def lex(text):
    text = re.sub(r'/\*.*?\*/', ' ', text, flags=re.S)
    text = re.sub(r'"(?:[^"\\]|\\.)*"', '0', text)      # string literals only occur as GV_CANARY arguments
    toks, i = [], 0
    while i < len(text):
        m = TOK.match(text, i)
        if not m:
            if text[i:].strip() == '':
                break
            raise Untranslatable('unexpected character %r' % text[i:i + 20])
        i = m.end()
        if m.group(1):
            toks.append(('num', int(m.group(1))))
        elif m.group(2):
            toks.append(('id', m.group(2)))
        else:
            toks.append(('op', m.group(3)))
    return toks


TYPEWORDS = {'Float', 'Index', 'int', 'double', 'const', 'struct', 'long'}


class Parser:
    def __init__(self, toks):
        self.t = toks
        self.i = 0

    def peek(self, k=0):
        return self.t[self.i + k] if self.i + k < len(self.t) else ('eof', None)

    def next(self):
        tok = self.peek()
        self.i += 1
        return tok

    def accept(self, v):
        if self.peek()[1] == v and self.peek()[0] in ('op', 'id'):
            self.i += 1
            return True
        return False

    def expect(self, v):
        if not self.accept(v):
            raise Untranslatable('expected %r, found %r' % (v, self.peek()))

    # ---- expressions: precedence climbing
    def expr(self):
        return self.impl()

    def impl(self):
        a = self.cond()
        if self.accept('==>'):
            return ('impl', a, self.impl())
        return a

    def cond(self):
        c = self.lor()
        if self.accept('?'):
            a = self.expr()
            self.expect(':')
            b = self.cond()
            return ('ite', c, a, b)
        return c

    def lor(self):
        a = self.land()
        while self.accept('||'):
            a = ('or', a, self.land())
        return a

    def land(self):
        a = self.eq()
        while self.accept('&&'):
            a = ('and', a, self.eq())
        return a

    def eq(self):
        a = self.rel()
        while self.peek() in (('op', '=='), ('op', '!=')):
            op = self.next()[1]
            a = ('cmp', op, a, self.rel())
        return a

    def rel(self):
        a = self.add()
        while self.peek() in (('op', '<'), ('op', '<='), ('op', '>'), ('op', '>=')):
            op = self.next()[1]
            a = ('cmp', op, a, self.add())
        return a

    def add(self):
        a = self.mul()
        while self.peek() in (('op', '+'), ('op', '-')):
            op = self.next()[1]
            a = ('bin', op, a, self.mul())
        return a

    def mul(self):
        a = self.unary()
        while self.peek() in (('op', '*'), ('op', '/')):
            op = self.next()[1]
            a = ('bin', op, a, self.unary())
        if self.peek() == ('op', '%'):
            raise Untranslatable('operator %')
        return a

    def unary(self):
        if self.accept('--'):
            return ('predec', self.unary())
        if self.peek() == ('op', '++'):
            raise Untranslatable('operator ++')
        if self.accept('-'):
            return ('neg', self.unary())
        if self.accept('!'):
            return ('not', self.unary())
        if self.accept('&'):
            return ('addr', self.unary())
        if self.accept('*'):
            return ('deref', self.unary())
        return self.postfix()

    def postfix(self):
        tok = self.next()
        if tok[0] == 'num':
            a = ('num', tok[1])
        elif tok[0] == 'id':
            if tok[1] in TYPEWORDS:
                raise Untranslatable('type name in expression: %s' % tok[1])
            a = ('var', tok[1])
        elif tok == ('op', '('):
            a = self.expr()
            self.expect(')')
        else:
            raise Untranslatable('unexpected token %r' % (tok,))
        while True:
            if self.accept('('):
                args = []
                if not self.accept(')'):
                    while True:
                        args.append(self.expr())
                        if self.accept(')'):
                            break
                        self.expect(',')
                if a[0] != 'var':
                    raise Untranslatable('call through expression')
                a = ('call', a[1], args)
            elif self.accept('['):
                ix = self.expr()
                self.expect(']')
                a = ('index', a, ix)
            elif self.accept('->'):
                a = ('arrow', a, self.next()[1])
            elif self.accept('.'):
                a = ('dot', a, self.next()[1])
            elif self.peek() in (('op', '--'), ('op', '++')):
                raise Untranslatable('postfix ++/--')
            else:
                return a

    # ---- statements
    def stmt(self):
        if self.accept('{'):
            body = []
            while not self.accept('}'):
                body.append(self.stmt())
            return ('block', body)
        if self.accept(';'):
            return ('block', [])
        if self.accept('if'):
            self.expect('(')
            c = self.expr()
            self.expect(')')
            a = self.stmt()
            b = ('block', [])
            if self.accept('else'):
                b = self.stmt()
            return ('if', c, a, b)
        if self.accept('return'):
            if self.accept(';'):
                return ('return', None)
            e = self.expr()
            self.expect(';')
            return ('return', e)
        tok = self.peek()
        if tok[0] == 'id' and tok[1] in ('for', 'while', 'do', 'switch', 'goto', 'break', 'continue'):
            raise Untranslatable('statement %s' % tok[1])
        if tok[0] == 'id' and tok[1] in TYPEWORDS:
            # declaration:  [const] T [const] [*] [const] name = expr ;
            while self.peek()[0] == 'id' and self.peek()[1] in TYPEWORDS:
                self.next()
            isptr = False
            while self.accept('*'):
                isptr = True
            while self.peek() == ('id', 'const'):
                self.next()
            name = self.next()
            if name[0] != 'id':
                raise Untranslatable('declarator')
            self.expect('=')
            e = self.expr()
            self.expect(';')
            return ('decl', name[1], e)
        e = self.expr()
        if self.peek()[0] == 'op' and self.peek()[1] in ('=', '-=', '+='):
            op = self.next()[1]
            rhs = self.expr()
            self.expect(';')
            return ('assign', op, e, rhs)
        self.expect(';')
        return ('expr', e)


# ------------------------------------------------------------------------------------------------ functions in the C file
def split_clauses(text, i):
    """text[i:] starts after the ')' of a signature; returns ([(kind, clause_text)], index of the following char)"""
    out = []
    while True:
        m = re.compile(r'\s*(__CPROVER_\w+|MV_CONTRACT_\w+)').match(text, i)
        if not m:
            return out, i
        i = m.end()
        if m.group(1).startswith('MV_CONTRACT_'):
            out.append((m.group(1), ''))
            continue
        j = i
        while text[j].isspace():
            j += 1
        if text[j] != '(':
            raise Untranslatable('clause without (')
        depth, k = 0, j
        while True:
            if text[k] == '(':
                depth += 1
            elif text[k] == ')':
                depth -= 1
                if depth == 0:
                    break
            k += 1
        out.append((m.group(1), text[j + 1:k]))
        i = k + 1


class Func:
    def __init__(self, name, params, body, ret_macro):
        self.name, self.params, self.body, self.ret_macro = name, params, body, ret_macro


def load_functions(ctext):
    funcs = {}
    for m in re.finditer(r'/\* ---- (\w+) : extracted from (\S+) \(sha1 \w+\) ---- \*/\n#undef GV_RET\n#define GV_RET ?(.*)\n', ctext):
        name, retm = m.group(1), m.group(3).strip()
        i = m.end()
        while ctext.startswith('#define', i):          # per-function defines
            i = ctext.index('\n', i) + 1
        sig_end = ctext.index(')', i)
        sig = ctext[i:sig_end + 1]
        pm = re.match(r'\s*(?:const\s+)?[\w ]+?\*?\s*' + name + r'\s*\((.*)\)\s*$', sig, re.S)
        if not pm:
            raise Untranslatable('signature of ' + name)
        params = []
        for p in pm.group(1).split(','):
            p = p.strip()
            if p and p != 'void':
                params.append(re.findall(r'\w+', p)[-1])
        _, j = split_clauses(ctext, sig_end + 1)
        while ctext[j].isspace():
            j += 1
        if ctext[j] != '{':
            raise Untranslatable('body of ' + name)
        depth, k = 0, j
        while True:
            if ctext[k] == '{':
                depth += 1
            elif ctext[k] == '}':
                depth -= 1
                if depth == 0:
                    break
            k += 1
        body = ctext[j:k + 1]
        while True:                                   # proof-only statements injected by the spec are no part of the code
            g = re.search(r'\bGV_GHOST\s*\(', body)
            if not g:
                break
            dep, q = 0, g.end() - 1
            while True:
                dep += {'(': 1, ')': -1}.get(body[q], 0)
                if dep == 0:
                    break
                q += 1
            body = body[:g.start()] + body[q + 1:]
        funcs[name] = Func(name, params, body, retm)
    return funcs


# ------------------------------------------------------------------------------------------------ symbolic execution
# values:  ('int', z3 Int) | ('bool', z3 Bool) | ('ptr', base, z3 Int element offset) | ('elem', base, off) |
#          ('addr', path) | ('null',) ; lvalue paths are strings ("self.base.mem.rep")
class State:
    def __init__(self, env, pc, glob):
        self.env, self.pc, self.glob = env, pc, glob

    def copy(self):
        return State(dict(self.env), list(self.pc), dict(self.glob))


class Exec:
    def __init__(self, funcs, fields):
        self.funcs = funcs
        self.fields = fields          # path -> value for the object's data members
        self.side = []                # [(path condition list, z3 Bool, text)]  division side conditions
        self.parsed = {}

    def parsed_body(self, f):
        if f.name not in self.parsed:
            p = Parser(lex(f.body))
            self.parsed[f.name] = p.stmt()
        return self.parsed[f.name]

    def call(self, name, args, pc=()):
        """execute function `name` on values args; returns list of (pc, retval, glob)"""
        f = self.funcs.get(name)
        if f is None:
            raise Untranslatable('call to unknown function ' + name)
        if len(args) != len(f.params):
            raise Untranslatable('arity of ' + name)
        st = State(dict(zip(f.params, args)), list(pc), {'gv_exc': ('int', z3.IntVal(0))})
        st.env['GV_RET'] = ('null',) if f.ret_macro in ('NULL', 'nullptr') else ('int', z3.IntVal(0))
        outs = []
        self.run(self.parsed_body(f), [st], outs)
        return outs

    def run(self, s, states, outs):
        """executes statement s on every state; returns the states that fall through"""
        k = s[0]
        if k == 'block':
            for x in s[1]:
                states = self.run(x, states, outs)
            return states
        res = []
        for st in states:
            if k == 'decl':
                st.env[s[1]] = self.ev(s[2], st)
                res.append(st)
            elif k == 'assign':
                rhs = self.ev(s[3], st)
                if s[1] != '=':
                    cur = self.ev(s[2], st)
                    rhs = self.arith('-' if s[1] == '-=' else '+', cur, rhs, st)
                self.store(s[2], rhs, st)
                res.append(st)
            elif k == 'expr':
                e = s[1]
                if e[0] == 'call' and (e[1] == 'GV_CANARY' or e[1].startswith('gv_lemma_')):
                    res.append(st)       # proof-only statements injected by the spec: no effect on the computation
                else:
                    self.ev(e, st)
                    res.append(st)
            elif k == 'if':
                c = self.tobool(self.ev(s[1], st))
                a, b = st.copy(), st.copy()
                a.pc.append(c)
                b.pc.append(z3.Not(c))
                res += self.run(s[2], [a], outs)
                res += self.run(s[3], [b], outs)
            elif k == 'return':
                outs.append((st.pc, self.ev(s[1], st) if s[1] is not None else None, st.glob))
            else:
                raise Untranslatable('statement kind ' + k)
        return res

    def store(self, lv, val, st):
        if lv[0] == 'var':
            if lv[1] in st.glob:
                st.glob[lv[1]] = val
            else:
                st.env[lv[1]] = val
        else:
            raise Untranslatable('store to ' + str(lv[0]))

    def path_of(self, e, st):
        if e[0] == 'var':
            v = st.env.get(e[1])
            if v and v[0] == 'addr':
                return v[1], True        # (path, is pointer to it)
            raise Untranslatable('member access through ' + e[1])
        if e[0] == 'arrow':
            p, isptr = self.path_of(e[1], st)
            if not isptr:
                raise Untranslatable('-> on non-pointer')
            return p + '.' + e[2], False
        if e[0] == 'dot':
            p, isptr = self.path_of(e[1], st)
            if isptr:
                raise Untranslatable('. on pointer')
            return p + '.' + e[2], False
        raise Untranslatable('lvalue ' + e[0])

    def tobool(self, v):
        if v[0] == 'bool':
            return v[1]
        if v[0] == 'int':
            return v[1] != 0
        raise Untranslatable('condition of kind ' + v[0])

    def toint(self, v):
        if v[0] == 'int':
            return v[1]
        if v[0] == 'bool':
            return z3.If(v[1], z3.IntVal(1), z3.IntVal(0))
        raise Untranslatable('integer expected, got ' + v[0])

    def arith(self, op, a, b, st):
        if a[0] == 'ptr' and b[0] in ('int',):
            if op == '+':
                return ('ptr', a[1], a[2] + b[1])
            if op == '-':
                return ('ptr', a[1], a[2] - b[1])
            raise Untranslatable('pointer ' + op)
        x, y = self.toint(a), self.toint(b)
        if op == '+':
            return ('int', x + y)
        if op == '-':
            return ('int', x - y)
        if op == '*':
            return ('int', x * y)
        if op == '/':
            self.side.append((list(st.pc), z3.And(x >= 0, y > 0), 'division %s / %s' % (x, y)))
            return ('int', x / y)
        raise Untranslatable('operator ' + op)

    def ev(self, e, st):
        k = e[0]
        if k == 'num':
            return ('int', z3.IntVal(e[1]))
        if k == 'var':
            n = e[1]
            if n in st.env:
                return st.env[n]
            if n in st.glob:
                return st.glob[n]
            if n == 'NULL':
                return ('null',)
            if n.startswith('GV_') and n[3:] in EXC:
                return ('int', z3.IntVal(EXC[n[3:]]))
            raise Untranslatable('unknown identifier ' + n)
        if k in ('arrow', 'dot'):
            p, _ = self.path_of(e, st)
            if p not in self.fields:
                raise Untranslatable('unknown data member ' + p)
            return self.fields[p]
        if k == 'addr':
            x = e[1]
            if x[0] in ('arrow', 'dot'):
                p, _ = self.path_of(x, st)
                return ('addr', p)
            if x[0] in ('index', 'deref'):
                v = self.ev(x, st)
                if v[0] == 'elem':
                    return ('ptr', v[1], v[2])
            raise Untranslatable('& of ' + x[0])
        if k == 'deref':
            v = self.ev(e[1], st)
            if v[0] == 'ptr':
                return ('elem', v[1], v[2])
            raise Untranslatable('* of ' + v[0])
        if k == 'index':
            b, i = self.ev(e[1], st), self.ev(e[2], st)
            if b[0] == 'ptr' and i[0] == 'int':
                return ('elem', b[1], b[2] + i[1])
            raise Untranslatable('[] on ' + b[0])
        if k == 'predec':
            if e[1][0] != 'var' or e[1][1] not in st.env:
                raise Untranslatable('-- on non-local')
            v = self.arith('-', st.env[e[1][1]], ('int', z3.IntVal(1)), st)
            st.env[e[1][1]] = v
            return v
        if k == 'neg':
            return ('int', -self.toint(self.ev(e[1], st)))
        if k == 'not':
            return ('bool', z3.Not(self.tobool(self.ev(e[1], st))))
        if k == 'bin':
            a = self.ev(e[2], st)
            b = self.ev(e[3], st)
            return self.arith(e[1], a, b, st)
        if k == 'cmp':
            a, b = self.toint(self.ev(e[2], st)), self.toint(self.ev(e[3], st))
            return ('bool', {'<': a < b, '<=': a <= b, '>': a > b, '>=': a >= b, '==': a == b, '!=': a != b}[e[1]])
        if k in ('and', 'or', 'impl'):
            a = self.tobool(self.ev(e[1], st))
            st2 = st.copy()
            st2.pc.append(z3.Not(a) if k == 'or' else a)
            b = self.tobool(self.ev(e[2], st2))
            return ('bool', z3.And(a, b) if k == 'and' else z3.Or(a, b) if k == 'or' else z3.Implies(a, b))
        if k == 'ite':
            c = self.tobool(self.ev(e[1], st))
            sa, sb = st.copy(), st.copy()
            sa.pc.append(c)
            sb.pc.append(z3.Not(c))
            a, b = self.ev(e[2], sa), self.ev(e[3], sb)
            if sa.env != st.env or sb.env != st.env:
                raise Untranslatable('side effect inside ?:')
            if a[0] == b[0] == 'int':
                return ('int', z3.If(c, a[1], b[1]))
            if a[0] == b[0] == 'bool':
                return ('bool', z3.If(c, a[1], b[1]))
            if a[0] == b[0] and a[0] in ('ptr', 'elem') and a[1] == b[1]:
                return (a[0], a[1], z3.If(c, a[2], b[2]))
            raise Untranslatable('?: over %s / %s' % (a[0], b[0]))
        if k == 'call':
            if e[1] in ('GV_MIN', 'GV_MAX'):
                a, b = self.toint(self.ev(e[2][0], st)), self.toint(self.ev(e[2][1], st))
                return ('int', z3.If(a < b, a, b) if e[1] == 'GV_MIN' else z3.If(a > b, a, b))
            args = [self.ev(a, st) for a in e[2]]
            outs = self.call(e[1], args, st.pc)
            n0 = len(st.pc)
            if not outs or any(o[1] is None or o[1][0] not in ('int', 'ptr') for o in outs):
                raise Untranslatable('callee %s: unsupported return' % e[1])
            for o in outs:
                if not z3.is_int_value(o[2]['gv_exc'][1]) or o[2]['gv_exc'][1].as_long() != 0:
                    raise Untranslatable('callee %s may raise; only non-raising callees are inlined' % e[1])
            val = outs[-1][1]                      # the callee's paths partition the state: merge them into one value
            for pc_, v, _ in reversed(outs[:-1]):
                if v[0] != val[0] or (v[0] == 'ptr' and v[1] != val[1]):
                    raise Untranslatable('callee %s returns different kinds' % e[1])
                cnd = z3.And(pc_[n0:]) if pc_[n0:] else z3.BoolVal(True)
                val = ('int', z3.If(cnd, v[1], val[1])) if v[0] == 'int' else ('ptr', v[1], z3.If(cnd, v[2], val[2]))
            return val
        raise Untranslatable('expression kind ' + k)


EXC = {'BadRank': 1, 'BadIndex': 2, 'Singular': 3, 'BadRegularization': 4, 'NoConvergence': 5, 'ZeroDivision': 6,
       'NonPositiveDefinite': 7, 'NotImplemented': 8, 'StreamError': 9}


def check_predec_discipline(funcs):
    """a variable that is pre-decremented inside a full expression must occur exactly once in it (C leaves the order of
    evaluation of operands unspecified; the executor evaluates left to right)"""
    for f in funcs.values():
        for stmt in re.split(r'[;{}]', f.body):
            for v in re.findall(r'--\s*([A-Za-z_]\w*)', stmt):
                if len(re.findall(r'(?<![\w.>])' + v + r'\b', stmt)) != 1:
                    raise Untranslatable('%s: %s is decremented and used again in one expression' % (f.name, v))


# ------------------------------------------------------------------------------------------------ proving
RESULTS = []


def prove(name, hyps, goal):
    s = z3.Solver()
    s.set('timeout', 60000)
    s.add(*hyps)
    s.add(z3.Not(goal))
    r = s.check()
    if r == z3.unsat:
        print('LEMMA %s: proved' % name)
        RESULTS.append(True)
    elif r == z3.sat:
        m = s.model()
        print('LEMMA %s: FAILED %s' % (name, ', '.join('%s=%s' % (d.name(), m[d]) for d in sorted(m.decls(), key=lambda d: d.name()))))
        RESULTS.append(False)
    else:
        print('LEMMA %s: FAILED (z3 answered unknown)' % name)
        RESULTS.append(False)


def prove_sides(name, ex, hyps):
    sides, ex.side = ex.side, []
    if not sides:
        return
    goal = z3.And([z3.Implies(z3.And(pc) if pc else z3.BoolVal(True), c) for pc, c, _ in sides])
    prove(name + '.div_side_conditions(%d)' % len(sides), hyps, goal)


def summarize(outs):
    """[(pc, val, glob)] -> (ok condition, offset term, exception term, base, kind) merging the paths"""
    base = kind = None
    off = z3.IntVal(-1)
    exc = z3.IntVal(0)
    zero_ret = z3.BoolVal(False)
    for pc, val, glob in outs:
        c = z3.And(pc) if pc else z3.BoolVal(True)
        exc = z3.If(c, glob['gv_exc'][1], exc)
        if val[0] in ('ptr', 'elem'):
            if kind not in (None, val[0]) or base not in (None, val[1]):
                raise Untranslatable('paths return different kinds')
            kind, base = val[0], val[1]
            off = z3.If(c, val[2], off)
        elif val[0] == 'int':
            zero_ret = z3.Or(zero_ret, z3.And(c, val[1] == 0))
        elif val[0] != 'null':
            raise Untranslatable('return kind ' + val[0])
    return off, exc, zero_ret, kind, base


def repo_expr(repo, rel, pattern, what):
    text = open(os.path.join(repo, rel), encoding='utf-8', errors='replace').read()
    text = re.sub(r'//[^\n]*', '', text)
    ms = re.findall(pattern, text, re.S)
    if len(ms) != 1:
        raise Untranslatable('%s: pattern for %s matches %d times' % (rel, what, len(ms)))
    return ms[0]


def eval_text(ex, text, env):
    p = Parser(lex(text))
    e = p.expr()
    if p.peek()[0] != 'eof':
        raise Untranslatable('trailing tokens in %r' % text)
    st = State(dict(env), [], {})
    return ex.ev(e, st)


def main():
    cfile, repo = sys.argv[1], sys.argv[2]
    ctext = re.sub(r'(?m)^#pragma CPROVER check [^\n]*\n', '', open(cfile).read())   # check-scoping pragmas of extract.py
    funcs = load_functions(ctext)
    need = ['MemRep_begin', 'MemRep_begin_const', 'MatBase_cols', 'Vec_at', 'Vec_at_const', 'Mat_at', 'Mat_at_const',
            'SymMat_at', 'SymMat_at_const', 'CovMat_row', 'CovMat_row_const', 'CovMat_at', 'CovMat_at_const', 'BandMat_at',
            'BandMat_at_const', 'BandMat_row']
    for n in need:
        if n not in funcs:
            raise Untranslatable('function %s not in the generated file' % n)
    check_predec_discipline(funcs)

    I = z3.Int
    d, b, rows, cols, sz = I('d'), I('b'), I('rows'), I('cols'), I('sz')
    REP = ('ptr', 'rep', z3.IntVal(0))
    SELF = ('addr', 'self')

    def iv(x):
        return ('int', x)

    # ---------------------------------------------------------------- allocation sizes, from the constructors / reset()
    ex0 = Exec(funcs, {})
    B = r'MatBase<Float, Index, Exc>'
    sizes = {}
    srcs = [
        ('Mat.ctor', 'lib/matvec/mat.h', r'Mat\(Index r, Index c\)\s*:\s*' + B + r'\(r, c, ([^)]*)\)\s*\{\}', {'r': iv(rows), 'c': iv(cols)}, rows * cols),
        ('MatBase.reset', 'lib/matvec/matbase.h', r'virtual void reset\(Index r, Index c\)\s*\{[^}]*?this->resize\(([^;]*)\);', {'r': iv(rows), 'c': iv(cols)}, rows * cols),
        ('SymMat.ctor', 'lib/matvec/symmat.h', r'explicit SymMat\(Index d = Index\(\)\)\s*:\s*' + B + r'\(d, d, ([^)]*\)[^)]*)\), dim_\(d\)', {'d': iv(d)}, d * (d + 1) / 2),
        ('SymMat.reset', 'lib/matvec/symmat.h', r'void reset\(Index r, Index c\)\s*\{.*?this->resize\(([^;]*)\);', {'r': iv(d)}, d * (d + 1) / 2),
        ('CovMat.ctor', 'lib/matvec/covmat.h', r'CovMat\(Index d, Index b\)\s*:\s*' + B + r'\(d,d,(.*?)\), band_\(b\)', {'d': iv(d), 'b': iv(b)}, d * (b + 1) - b * (b + 1) / 2),
        ('CovMat.reset', 'lib/matvec/covmat.h', r'CovMat<Float, Index, Exc>::reset\(Index d, Index b\)\s*\{.*?this->resize\(([^;]*)\);', {'d': iv(d), 'b': iv(b)}, d * (b + 1) - b * (b + 1) / 2),
        ('BandMat.ctor', 'lib/matvec/bandmat.h', r'BandMat\(Index d, Index b\)\s*:\s*' + B + r'\(d,d,(.*?)\), band_\(b\)', {'d': iv(d), 'b': iv(b)}, d * (b + 1)),
        ('BandMat.reset', 'lib/matvec/bandmat.h', r'BandMat<Float, Index, Exc>::reset\(Index d, Index b\)\s*\{.*?this->resize\(([^;]*)\);', {'d': iv(d), 'b': iv(b)}, d * (b + 1)),
    ]
    dom = [d >= 0, b >= 0, rows >= 0, cols >= 0]
    for name, rel, pat, env, spec in srcs:
        txt = repo_expr(repo, rel, pat, name)
        v = eval_text(ex0, txt, env)
        sizes[name] = v[1]
        prove('%s.size_is_the_documented_element_count[%s]' % (name, ' '.join(txt.split())), dom, v[1] == spec)
        prove_sides(name, ex0, dom)
    for c in ('Mat', 'SymMat', 'CovMat', 'BandMat'):
        a, r_ = sizes[c + '.ctor'], sizes[('MatBase' if c == 'Mat' else c) + '.reset']
        prove('%s.ctor_and_reset_allocate_the_same_size' % c, dom, a == r_)

    # ---------------------------------------------------------------- gv_lemma_* declarations of matvec_spec.h
    spec_h = re.sub(r'(?m)^#pragma CPROVER check [^\n]*\n', '', open(os.path.join(os.path.dirname(os.path.abspath(__file__)), 'matvec_spec.h')).read())
    nlem = 0
    for m in re.finditer(r'\nvoid (gv_lemma_\w+)\(([^)]*)\)', spec_h):
        name = m.group(1)
        params = [re.findall(r'\w+', p)[-1] for p in m.group(2).split(',')]
        clauses, j = split_clauses(spec_h, m.end())
        if spec_h[j:].lstrip()[0] != ';':
            raise Untranslatable('lemma %s is not a declaration' % name)
        env = {p: iv(I(name[9:] + '_' + p)) for p in params}
        hyps, goals = [], []
        exl = Exec(funcs, {})
        for kind, txt in clauses:
            if kind == '__CPROVER_requires':
                if txt.strip().startswith('GV_MACHINE_BOUND'):
                    continue                 # machine-arithmetic bound: NOT used by the mathematical proof
                hyps.append(exl.tobool(eval_text(exl, txt, env)))
            elif kind == '__CPROVER_ensures':
                goals.append(txt)
            elif kind != '__CPROVER_assigns':
                raise Untranslatable('clause %s in lemma %s' % (kind, name))
        prove_sides(name + '.requires', exl, [])
        for n_, g in enumerate(goals, 1):
            prove('%s.ensures.%d' % (name, n_), hyps, exl.tobool(eval_text(exl, g, env)))
            prove_sides('%s.ensures.%d' % (name, n_), exl, hyps)
        nlem += 1
    if nlem < 4:
        raise Untranslatable('only %d gv_lemma declarations found in matvec_spec.h' % nlem)

    # ---------------------------------------------------------------- Vec
    n, n2 = I('n'), I('n2')
    ex = Exec(funcs, {'self.mem.rep': REP, 'self.mem.sz': iv(sz)})

    def one(fn, *args):
        return summarize(ex.call(fn, [SELF] + [iv(a) for a in args]))

    o, e_, _, k, _ = one('Vec_at', n)
    oc, _, _, kc, _ = one('Vec_at_const', n)
    o2 = one('Vec_at', n2)[0]
    H = [1 <= n, n <= sz, 1 <= n2, n2 <= sz]
    prove('Vec.offset_in_bounds', H, z3.And(0 <= o, o < sz, k == 'ptr'))
    prove('Vec.injective', H + [n != n2], o != o2)
    prove('Vec.const_is_same_element', H, z3.And(o == oc, kc == 'elem'))
    prove_sides('Vec', ex, H)

    # ---------------------------------------------------------------- Mat
    r, c, r2, c2 = I('r'), I('c'), I('r2'), I('c2')
    ex = Exec(funcs, {'self.base.mem.rep': REP, 'self.base.row_': iv(rows), 'self.base.col_': iv(cols)})
    size = sizes['Mat.ctor']
    H = [1 <= r, r <= rows, 1 <= c, c <= cols, 1 <= r2, r2 <= rows, 1 <= c2, c2 <= cols]
    o = one('Mat_at', r, c)[0]
    oc = one('Mat_at_const', r, c)[0]
    o2 = one('Mat_at', r2, c2)[0]
    prove('Mat.offset_in_bounds', H, z3.And(0 <= o, o < size))
    prove('Mat.injective', H + [z3.Or(r != r2, c != c2)], o != o2)
    prove('Mat.const_is_same_element', H, o == oc)
    prove('Mat.row_major_layout', H, o == (r - 1) * cols + (c - 1))
    prove_sides('Mat', ex, H)

    # ---------------------------------------------------------------- SymMat
    i, j, i2, j2 = I('i'), I('j'), I('i2'), I('j2')
    ex = Exec(funcs, {'self.base.mem.rep': REP, 'self.dim_': iv(d)})
    size = sizes['SymMat.ctor']
    H = [1 <= i, i <= d, 1 <= j, j <= d, 1 <= i2, i2 <= d, 1 <= j2, j2 <= d]
    o = one('SymMat_at', i, j)[0]
    ot = one('SymMat_at', j, i)[0]
    oc = one('SymMat_at_const', i, j)[0]
    o2 = one('SymMat_at', i2, j2)[0]
    prove('SymMat.offset_in_bounds', H, z3.And(0 <= o, o < size))
    prove('SymMat.symmetric', H, o == ot)
    prove('SymMat.injective_on_lower_triangle', H + [i >= j, i2 >= j2, z3.Or(i != i2, j != j2)], o != o2)
    prove('SymMat.const_is_same_element', H, o == oc)
    prove('SymMat.onto_last_element', [d >= 1], z3.substitute(o, (i, d), (j, d)) == size - 1)
    prove_sides('SymMat', ex, H)

    # ---------------------------------------------------------------- CovMat
    row = I('row')
    s_, s2 = I('s'), I('s2')
    ex = Exec(funcs, {'self.base.mem.rep': REP, 'self.base.row_': iv(d), 'self.band_': iv(b), 'self.band_1': iv(b + 1),
                      'self.dim_b': iv(d - b)})
    size = sizes['CovMat.ctor']
    D = [0 <= b, b < d]
    H = D + [1 <= row, row <= d]
    o = one('CovMat_row', row)[0]
    oc = one('CovMat_row_const', row)[0]
    mn = z3.If(b < d - row, b, d - row)
    prove('CovMat.row_offset_in_bounds', H, z3.And(0 <= o, o + mn < size))
    prove('CovMat.row_const_is_same', H, o == oc)
    prove('CovMat.row_first_is_0', D, z3.substitute(o, (row, z3.IntVal(1))) == 0)
    prove('CovMat.row_step_is_rowlength', H + [row < d], z3.substitute(o, (row, row + 1)) == o + mn + 1)
    prove('CovMat.row_end_is_size', D, z3.substitute(o, (row, d + 1)) == size)
    prove_sides('CovMat.row', ex, D + [1 <= row, row <= d + 1])
    H = D + [1 <= r, r <= d, 1 <= s_, s_ <= d, 1 <= r2, r2 <= d, 1 <= s2, s2 <= d]
    o, e1, _, _, _ = one('CovMat_at', r, s_)
    ot = one('CovMat_at', s_, r)[0]
    oc, _, zc, _, _ = one('CovMat_at_const', r, s_)
    o2 = one('CovMat_at', r2, s2)[0]
    absd = z3.If(r > s_, r - s_, s_ - r)
    inb = absd <= b
    inb2 = z3.If(r2 > s2, r2 - s2, s2 - r2) <= b
    prove('CovMat.BadIndex_exactly_outside_band', H, z3.If(inb, e1 == 0, e1 == EXC['BadIndex']))
    prove('CovMat.offset_in_bounds_inside_band', H + [inb], z3.And(0 <= o, o < size))
    prove('CovMat.symmetric', H + [inb], o == ot)
    prove('CovMat.injective_on_upper_band', H + [inb, inb2, r <= s_, r2 <= s2, z3.Or(r != r2, s_ != s2)], o != o2)
    prove('CovMat.const_is_same_element_inside_band_and_0_outside', H, z3.If(inb, oc == o, zc))
    prove('CovMat.element_is_row_plus_distance', H + [inb, r <= s_], o == z3.substitute(one('CovMat_row', row)[0], (row, r)) + (s_ - r))
    prove_sides('CovMat.at', ex, H)

    # ---------------------------------------------------------------- BandMat
    ex = Exec(funcs, {'self.base.mem.rep': REP, 'self.base.row_': iv(d), 'self.band_': iv(b)})
    size = sizes['BandMat.ctor']
    D = [0 <= b]
    H = D + [1 <= r, r <= d, 1 <= s_, s_ <= d, 1 <= r2, r2 <= d, 1 <= s2, s2 <= d]
    o, e1, _, _, _ = one('BandMat_at', r, s_)
    ot = one('BandMat_at', s_, r)[0]
    oc, _, zc, _, _ = one('BandMat_at_const', r, s_)
    o2 = one('BandMat_at', r2, s2)[0]
    orow = one('BandMat_row', row)[0]
    prove('BandMat.BadIndex_exactly_outside_band', H, z3.If(inb, e1 == 0, e1 == EXC['BadIndex']))
    prove('BandMat.offset_in_bounds_inside_band', H + [inb], z3.And(0 <= o, o < size))
    prove('BandMat.symmetric', H + [inb], o == ot)
    prove('BandMat.injective_on_upper_band', H + [inb, inb2, r <= s_, r2 <= s2, z3.Or(r != r2, s_ != s2)], o != o2)
    prove('BandMat.const_is_same_element_inside_band_and_0_outside', H, z3.If(inb, oc == o, zc))
    prove('BandMat.element_is_row_plus_distance', H + [inb, r <= s_], o == z3.substitute(orow, (row, r)) + (s_ - r))
    prove('BandMat.row_owns_b_plus_1_slots', D + [1 <= row, row <= d], z3.And(0 <= orow, orow + b < size))
    prove_sides('BandMat', ex, H + [1 <= row, row <= d])

    return 0 if all(RESULTS) else 1


if __name__ == '__main__':
    try:
        sys.exit(main())
    except Untranslatable as e:
        die(str(e))
