// Native demonstrations for unit abs_term (property C14, clause "an observation is excluded for a gross absolute term
// exactly when its positional misclosure exceeds tol-abs").  Real headers and sources of /repo, public API only.
// Build (any libgama.a built from /repo/lib, e.g. all SRC_GAMA files of /repo/CMakeLists.txt):
//   g++ -std=c++14 -I/repo/lib native_demo.cpp libgama.a -lexpat -o native_demo && ./native_demo
// Each case prints, per observation, the raw absolute term rhs(i), what test_abs_term(i) answers after
// project_equations(), and what remove_huge_abs_terms() leaves.  Expected (property) vs observed is stated per case.
#include <gnu_gama/local/network.h>
#include <gnu_gama/xml/gkfparser.h>
#include <gnu_gama/local/language.h>
#include <cstdio>
#include <cstring>
#include <string>
using namespace GNU_gama::local;

// 1. homogenised b: an angle with a 1 gon blunder (15.7 m at 1000 m) and stdev 1000 cc (m0_apr 10): huge_abs_terms() is true
//    (raw b = 10000 cc), but test_abs_term() afterwards reads b scaled by m0/stdev = 0.01 -> 157 mm < 1000 -> kept.
static const char* angle_scaled =
"<?xml version=\"1.0\" ?>\n"
"<gama-local xmlns=\"http://www.gnu.org/software/gama/gama-local\">\n"
"<network axes-xy=\"ne\" angles=\"left-handed\">\n"
"<parameters sigma-apr=\"10\" conf-pr=\"0.95\" tol-abs=\"1000\" sigma-act=\"apriori\"/>\n"
"<points-observations distance-stdev=\"5.0\" angle-stdev=\"1000\">\n"
"<point id=\"A\" x=\"0\" y=\"0\" fix=\"xy\"/>\n"
"<point id=\"B\" x=\"1000\" y=\"0\" fix=\"xy\"/>\n"
"<point id=\"C\" x=\"0\" y=\"1000\" fix=\"xy\"/>\n"
"<point id=\"P\" x=\"500\" y=\"500\" adj=\"xy\"/>\n"
"<obs from=\"P\">\n"
"<distance to=\"A\" val=\"707.107\"/>\n"
"<distance to=\"B\" val=\"707.107\"/>\n"
"<distance to=\"C\" val=\"707.107\"/>\n"
"</obs>\n"
"<obs from=\"A\">\n"
"<angle bs=\"B\" fs=\"P\" val=\"51.0000\"/>\n"
"</obs>\n"
"</points-observations>\n"
"</network>\n"
"</gama-local>\n";
// 2. zero homogenised term: vector A->P with dx, dy both 2 m off and cofactors [[1,1],[1,2]] (Cholesky factor [[1,0],[1,1]]):
//    homogenised b(dy) = (2000 - 1*2000)/1 = 0 exactly -> test_abs_term(dy) returns "0 or the term" = 0 -> dy (2000 mm > 1000) kept.
static const char* vec_corr =
"<?xml version=\"1.0\" ?>\n"
"<gama-local xmlns=\"http://www.gnu.org/software/gama/gama-local\">\n"
"<network axes-xy=\"ne\" angles=\"left-handed\">\n"
"<parameters sigma-apr=\"1\" conf-pr=\"0.95\" tol-abs=\"1000\" sigma-act=\"apriori\"/>\n"
"<points-observations distance-stdev=\"5.0\">\n"
"<point id=\"A\" x=\"0\" y=\"0\" z=\"0\" fix=\"xyz\"/>\n"
"<point id=\"B\" x=\"1000\" y=\"0\" z=\"0\" fix=\"xyz\"/>\n"
"<point id=\"C\" x=\"0\" y=\"1000\" z=\"0\" fix=\"xyz\"/>\n"
"<point id=\"P\" x=\"500\" y=\"500\" z=\"10\" adj=\"xyz\"/>\n"
"<obs from=\"P\">\n"
"<distance to=\"A\" val=\"707.107\"/>\n"
"<distance to=\"B\" val=\"707.107\"/>\n"
"<distance to=\"C\" val=\"707.107\"/>\n"
"</obs>\n"
"<vectors>\n"
"<vec from=\"A\" to=\"P\" dx=\"502\" dy=\"502\" dz=\"10.001\"/>\n"
"<cov-mat dim=\"3\" band=\"2\">\n"
"1 1 0\n"
"2 0\n"
"1\n"
"</cov-mat>\n"
"</vectors>\n"
"</points-observations>\n"
"</network>\n"
"</gama-local>\n";
// 3. angle arms: the same 0.1 gon blunder, arms 1 m and 10 km: flagged when the long arm is bs, kept when it is fs
//    (doc/gama-local-adj.texi: |b| max{d_l, d_r} > tol-abs).
static const char* angle_arm =
"<?xml version=\"1.0\" ?>\n"
"<gama-local xmlns=\"http://www.gnu.org/software/gama/gama-local\">\n"
"<network axes-xy=\"ne\" angles=\"left-handed\">\n"
"<parameters sigma-apr=\"10\" conf-pr=\"0.95\" tol-abs=\"1000\" sigma-act=\"apriori\"/>\n"
"<points-observations distance-stdev=\"5.0\" angle-stdev=\"10\">\n"
"<point id=\"A\" x=\"0\" y=\"0\" fix=\"xy\"/>\n"
"<point id=\"B\" x=\"1\" y=\"0\" fix=\"xy\"/>\n"
"<point id=\"C\" x=\"0\" y=\"10000\" fix=\"xy\"/>\n"
"<point id=\"P\" x=\"5000\" y=\"5000\" adj=\"xy\"/>\n"
"<obs from=\"P\">\n"
"<distance to=\"A\" val=\"7071.068\"/>\n"
"<distance to=\"B\" val=\"7070.361\"/>\n"
"<distance to=\"C\" val=\"7071.068\"/>\n"
"</obs>\n"
"<obs from=\"A\">\n"
"<angle bs=\"B\" fs=\"C\" val=\"100.1000\"/>\n"
"<angle bs=\"C\" fs=\"B\" val=\"300.1000\"/>\n"
"</obs>\n"
"</points-observations>\n"
"</network>\n"
"</gama-local>\n";
// 4. empty point id: coordinate observations have to() == "": test_abs_term evaluates PD[""] and the map grows by a point.
static const char* coords =
"<?xml version=\"1.0\" ?>\n"
"<gama-local xmlns=\"http://www.gnu.org/software/gama/gama-local\">\n"
"<network axes-xy=\"ne\" angles=\"left-handed\">\n"
"<parameters sigma-apr=\"1\" conf-pr=\"0.95\" tol-abs=\"1000\" sigma-act=\"apriori\"/>\n"
"<points-observations distance-stdev=\"5.0\">\n"
"<point id=\"A\" x=\"0\" y=\"0\" fix=\"xy\"/>\n"
"<point id=\"B\" x=\"1000\" y=\"0\" fix=\"xy\"/>\n"
"<point id=\"C\" x=\"0\" y=\"1000\" fix=\"xy\"/>\n"
"<point id=\"P\" x=\"500\" y=\"500\" adj=\"xy\"/>\n"
"<obs from=\"P\">\n"
"<distance to=\"A\" val=\"707.107\"/>\n"
"<distance to=\"B\" val=\"707.107\"/>\n"
"<distance to=\"C\" val=\"707.107\"/>\n"
"</obs>\n"
"<coordinates>\n"
"<point id=\"P\" x=\"502\" y=\"502\"/>\n"
"<cov-mat dim=\"2\" band=\"1\">\n"
"1 1\n"
"2\n"
"</cov-mat>\n"
"</coordinates>\n"
"</points-observations>\n"
"</network>\n"
"</gama-local>\n";

static int run(const char* title, const char* gkf)
{
  std::printf("==== %s\n", title);
  LocalNetwork net;
  GKFparser p(net);
  p.xml_parse(gkf, std::strlen(gkf), 1);
  net.set_algorithm("gso");
  size_t npts0 = net.PD.size();
  bool huge = net.huge_abs_terms();
  std::printf("points in PD before / after project_equations: %zu / %zu   PD holds the id \"\": %d\n", npts0, net.PD.size(),
              (int)(net.PD.find(PointID("")) != net.PD.end()));
  std::printf("huge_abs_terms() = %d  tol_abs = %g  m0_apr = %g\n", (int)huge, net.tol_abs(), net.apriori_m_0());
  for (int i = 1; i <= net.observations_count(); i++) {
    Observation* o = net.ptr_obs(i);
    std::printf("  obs %d  %s -> %s  raw rhs = %.6g  stdDev = %g  test_abs_term = %.6g\n", i, o->from().str().c_str(),
                o->to().str().c_str(), net.rhs(i), o->stdDev(), net.test_abs_term(i));
  }
  int n0 = net.observations_count();
  net.remove_huge_abs_terms();
  std::printf("after remove_huge_abs_terms(): %d of %d observations left, huge_abs_terms() = %d\n", net.observations_count(), n0,
              (int)net.huge_abs_terms());
  return 0;
}

int main()
{
  set_gama_language(en);
  run("1. angle, 1 gon blunder = 15708 mm at 1000 m, stdev 1000 cc: expected excluded; observed kept", angle_scaled);
  run("2. correlated vector, dx and dy 2000 mm off: expected both excluded; observed only dx", vec_corr);
  run("3. angle 0.1 gon blunder, arms 1 m / 10 km: expected both angles excluded (REPAIRED by 7cdeba6; before it only the one whose bs arm is long)", angle_arm);
  run("4. observed coordinates: expected PD unchanged (REPAIRED by 29733db; before it one more point with the id \"\")", coords);
  return 0;
}
