#!/usr/bin/env python3
# generator of /verif/units/abs_term/unit.json (scratch helper; the json is the artefact)
import json

NET = 'lib/gnu_gama/local/network.cpp'
NETH = 'lib/gnu_gama/local/network.h'
LP = 'lib/gnu_gama/local/lpoint.h'
OB = 'lib/gnu_gama/local/observation.h'

LPM = ['x_', 'y_', 'z_', 'bxy_', 'bz_', 'ix_', 'iy_', 'iz_', 'pst_']
OBM = ['from_', 'to_', 'value_', 'active_', 'reduction_dh_']
TAVM = ['indm', 'stan', 'cil', 'b', 'tol_abs_', 'val', 'd0']
NETM = ['revised_obs_', 'PD', 'b', 'tol_abs_', 'pocmer_', 'vybocujici_abscl_', 'tst_redbod_', 'tst_redmer_',
        'tst_rov_opr_', 'tst_vyrovnani_']

fns = []


def f(**kw):
    kw.setdefault('loops', 0)
    fns.append(kw)


for g in ('x', 'y', 'z'):
    f(name='LocalPoint_' + g, file=LP, header='double %s() const' % g,
      csig='double LocalPoint_%s(const struct LocalPoint* self)' % g, members=LPM)
f(name='LocalPoint_test_xy', file=LP, header='bool test_xy () const',
  csig='bool LocalPoint_test_xy(const struct LocalPoint* self)', members=LPM)
f(name='Observation_from', file=OB, header='const PointID& from() const',
  csig='PointID Observation_from(const struct Observation* self)', members=OBM)
f(name='Observation_to', file=OB, header='const PointID& to() const',
  csig='PointID Observation_to(const struct Observation* self)', members=OBM)
f(name='Angle_fs', file=OB, header='const PointID& fs() const',
  csig='PointID Angle_fs(const struct Observation* self)', members=OBM + ['fs_'])
f(name='Observation_reduction', file=OB, header='double reduction() const',
  csig='double Observation_reduction(const struct Observation* self)', members=OBM)
f(name='Observation_value', file=OB, header='double value() const',
  csig='double Observation_value(const struct Observation* self)', members=OBM,
  rules=[['\\breduction\\(\\)', 'Observation_reduction(self)', 0]])
f(name='Observation_set_passive', file=OB, header='void set_passive()',
  csig='void Observation_set_passive(struct Observation* self)', members=OBM, ret='')
f(name='Vec_at_const', file='lib/matvec/vecbase.h', header='Float operator()(Index n) const',
  csig='Float Vec_at_const(const struct Vec* self, Index n)', members=[],
  rules=[['this->begin\\(\\)', 'self->mem.rep', 1]])

f(name='TAV_value', file=NET, header='double value()', csig='double TAV_value(struct TAV* self)', members=TAVM)
f(name='TAV_setIndex', file=NET, header='void setIndex(int observationIndex)',
  csig='void TAV_setIndex(struct TAV* self, int observationIndex)', members=TAVM, ret='')
f(name='TAV_setFromTo', file=NET, header='void setFromTo(const LocalPoint& from, const LocalPoint& to)',
  csig='void TAV_setFromTo(struct TAV* self, const struct LocalPoint* from__p, const struct LocalPoint* to__p)',
  members=TAVM, ret='', defines=['from (*from__p)', 'to (*to__p)'],
  inject=[['d0\\s*=\\s*sqrt', 'fresh']])
f(name='TAV_check', file=NET, header='void check(double value)',
  csig='void TAV_check(struct TAV* self, double value)', members=TAVM, ret='')
TYPES = ['Distance', 'Direction', 'Angle', 'H_Diff', 'S_Distance', 'Z_Angle', 'X', 'Y', 'Z', 'Xdiff', 'Ydiff', 'Zdiff',
         'Azimuth']
NAMED = {'Distance', 'H_Diff', 'S_Distance', 'X', 'Y', 'Z', 'Xdiff', 'Ydiff', 'Zdiff'}
for t in TYPES:
    # unnamed parameters are written `T* /*obs*/` in the repository; comments are blanked by the extractor
    hdr = 'void visit(%s* obs)' % t if t in NAMED else 'void visit(%s* )' % t
    f(name='TAV_visit_' + t, file=NET, header=hdr,
      csig='void TAV_visit_%s(struct TAV* self, struct Observation* obs)' % t, members=TAVM, ret='',
      rules=[['(?<![\\w.>])check\\(', 'TAV_check(self, ', 1]])

f(name='LocalNetwork_test_abs_term', file=NET, header='double LocalNetwork::test_abs_term(int indm)',
  csig='double LocalNetwork_test_abs_term(struct LocalNetwork* self, int indm)', members=NETM, ret='0',
  rules=[
      ['Observation\\*\\s+m\\s*=\\s*revised_obs_\\[([^\\]]*)\\]\\s*;', 'struct Observation* m = *gv_vec_at(&revised_obs_, \\1);', 1],
      # std::hypot(p - q, r - s): the stub gets the four coordinates (tagged operation)
      ['std::hypot\\(\\s*([\\w>.-]+\\(\\))\\s*-\\s*([\\w>.-]+\\(\\))\\s*,\\s*([\\w>.-]+\\(\\))\\s*-\\s*([\\w>.-]+\\(\\))\\s*\\)', 'abs_hypot_d(\\1, \\2, \\3, \\4)', 2],
      ['const\\s+LocalPoint&\\s+stan\\s*=\\s*PD\\[m->from\\(\\)\\]\\s*;', 'const struct LocalPoint* const stan__p = PointData_at(&PD, Observation_from(m));', 1],
      ['PointData::const_iterator\\s+(\\w+)\\s*=\\s*PD\\.find\\(m->to\\(\\)\\)\\s*;', 'const struct LocalPoint* \\1 = PointData_find(&PD, Observation_to(m));', 0],
      ['PD\\[m->to\\(\\)\\]', '(*PointData_at(&PD, Observation_to(m)))', 0],   # tolerated respelling (the text before 29733db)
      ['PointData::const_iterator\\s+(\\w+)\\s*=\\s*PD\\.find\\(a->fs\\(\\)\\)\\s*;', 'const struct LocalPoint* \\1 = PointData_find(&PD, Angle_fs(a));', 1],
      ['\\b(\\w+)\\s*==\\s*PD\\.end\\(\\)', '\\1 == NULL', 0],
      ['\\b(\\w+)\\s*!=\\s*PD\\.end\\(\\)', '\\1 != NULL', 1],
      ['\\(\\*(\\w+)\\)\\.second', '(*\\1)', 2],
      ['if\\s*\\(\\s*const\\s+Angle\\*\\s+a\\s*=\\s*dynamic_cast<const\\s+Angle\\*>\\(m\\)\\s*\\)', 'const struct Observation* a = gv_dyn_Angle(m); if (a)', 1],
      ['const\\s+LocalPoint\\*\\s+cilp\\b', 'const struct LocalPoint* cilp', 1],
      ['const\\s+LocalPoint&\\s+(c2|cil)\\s*=\\s*([^;]*);', 'const struct LocalPoint* const \\1__p = &(\\2);', 2],
      ['(?<!&)&\\s*(stan|c2)\\b(?!\\.)', '\\1__p', 1],
      ['\\b(stan|c2)\\.(x|y|test_xy)\\(\\)', 'LocalPoint_\\2(\\1__p)', 5],
      ['\\(\\*(\\w+)\\)\\.(x|y|test_xy)\\(\\)', 'LocalPoint_\\2(\\1)', 1],
      ['\\bcilp->(x|y|test_xy)\\(\\)', 'LocalPoint_\\1(cilp)', 3],
      ['TestAbsTermVisitor\\s+testVisitor\\(b,\\s*tol_abs_\\);', 'struct TAV testVisitor; TAV_ctor(&testVisitor, &b, tol_abs_);', 1],
      ['testVisitor\\.setIndex\\(indm\\);', 'TAV_setIndex(&testVisitor, indm);', 1],
      ['testVisitor\\.setFromTo\\(stan,\\s*cil\\);', 'TAV_setFromTo(&testVisitor, stan__p, cil__p);', 1],
      ['m->accept\\(&testVisitor\\);', 'gv_accept(m, &testVisitor);', 1],
      ['testVisitor\\.value\\(\\)', 'TAV_value(&testVisitor)', 1]])

f(name='LocalNetwork_update', file=NET, header='void LocalNetwork::update(Update etapa)',
  csig='void LocalNetwork_update(struct LocalNetwork* self, Update etapa)', members=NETM, ret='')
f(name='LocalNetwork_huge_abs_terms', file=NETH, header='bool huge_abs_terms()',
  csig='bool LocalNetwork_huge_abs_terms(struct LocalNetwork* self)', members=NETM, ret='0',
  rules=[['(?<![\\w.>])project_equations\\(\\)', 'gvs_project_equations(self)', 1]])
f(name='LocalNetwork_pe_abs_block', file=NET, header='vybocujici_abscl_ = false;',
  csig='void LocalNetwork_pe_abs_block(struct LocalNetwork* self)', members=NETM, ret='', loops=1,
  rules=[['(?<![\\w.>])test_abs_term\\(', 'gvs_test_abs_term(self, ', 1]])
f(name='LocalNetwork_remove_huge_abs_terms', file=NET, header='void LocalNetwork::remove_huge_abs_terms()',
  csig='void LocalNetwork_remove_huge_abs_terms(struct LocalNetwork* self)', members=NETM, ret='', loops=1,
  rules=[
      ['(?<![\\w.>])huge_abs_terms\\(\\)', 'LocalNetwork_huge_abs_terms(self)', 1],
      ['RevisedObsList::iterator\\s+m\\s*=\\s*revised_obs_\\.begin\\(\\)', 'struct Observation** m = gv_vec_begin(&revised_obs_)', 1],
      ['revised_obs_\\.end\\(\\)', 'gv_vec_end(&revised_obs_)', 1],
      ['\\(\\*m\\)->set_passive\\(\\)', 'Observation_set_passive(gv_iter_deref(&revised_obs_, m))', 1],
      ['(?<![\\w.>])test_abs_term\\(', 'gvs_test_abs_term(self, ', 1],
      ['(?<![\\w.>])update\\((\\w+)\\)', 'LocalNetwork_update(self, \\1)', 1]])

common_rules = [
    ['\\b(stan|cil)\\s*->\\s*(x|y|z|test_xy)\\(\\)', 'LocalPoint_\\2(\\1)', 0],
    ['\\bobs\\s*->\\s*value\\(\\)', 'Observation_value(obs)', 0],
    ['\\bb\\(indm\\)', 'Vec_at_const(b, indm)', 0],
    ['(?<![\\w.>:])(?:std::)?fabs\\(', '__CPROVER_fabs(', 0],
    ['(?<![\\w.>:])(?:std::)?sqrt\\(', 'abs_sqrt(', 0],
]

checks = []


def c(name, entry, enforce, **kw):
    d = dict(name=name, kind='dfcc', entry=entry, enforce=[enforce], replace=['Vec_at_const'], loops=0,
             loop_contracts=False, min_obligations=5, timeout=400, tier='quick', level='proof')
    d.update(kw)
    if d['loops']:
        d.pop('loop_contracts')
    checks.append(d)


c('value', 'h_value', 'TAV_value', replace=[], min_obligations=2)
c('setIndex', 'h_setIndex', 'TAV_setIndex', replace=[], min_obligations=2)
c('setFromTo', 'h_setFromTo', 'TAV_setFromTo', replace=[], backend='cvc5')
c('check', 'h_check', 'TAV_check')
for t in TYPES:
    c('visit_' + t, 'h_visit_' + t, 'TAV_visit_' + t, backend='cvc5')
SAMPLE = dict(tier='quick', level='bounded', timeout=200, min_obligations=20,
              bound='one concrete sample point (mk_vis under ABS_SAMPLE): every obligation of the check evaluated by constant propagation, SAT')
c('setFromTo_sample', 'h_setFromTo', 'TAV_setFromTo', replace=[], defines=['ABS_SAMPLE=1', 'ABS_SAMPLE_NSQRT=0'], **SAMPLE)
for t in TYPES:
    if True:
        c('visit_%s_sample' % t, 'h_visit_' + t, 'TAV_visit_' + t, defines=['ABS_SAMPLE=1', 'ABS_SAMPLE_NSQRT=1'], **SAMPLE)
c('test_abs_term', 'h_test_abs_term', 'LocalNetwork_test_abs_term', min_obligations=30, timeout=600, extra_flags=['--object-bits', '12'], defines=['ABS_VALUES=0'],
  replace=['Vec_at_const', 'TAV_setIndex', 'TAV_setFromTo', 'TAV_value'] + ['TAV_visit_' + t for t in TYPES])
c('pe_abs_block', 'h_pe_abs_block', 'LocalNetwork_pe_abs_block', replace=[], loops=1)
c('remove_huge_abs_terms', 'h_remove_huge', 'LocalNetwork_remove_huge_abs_terms', replace=[], loops=1, min_obligations=20)

import os
if os.environ.get('EXCL'):
    import copy
    EX = {'check': ['GV_EXCL_NONZERO_TERM'],
          'test_abs_term': ['GV_EXCL_NONZERO_TERM'], 'remove_huge_abs_terms': ['GV_EXCL_UNIT_WEIGHTS']}
    for ch in list(checks):
        if ch['name'] in EX:
            d = copy.deepcopy(ch)
            d['name'] += '_excl'
            d['defines'] = d.get('defines', []) + EX[ch['name']]
            checks.append(d)

modelled = [
    dict(file=LP, decl_regex='double\\s+x_\\s*,\\s*y_\\s*,\\s*z_\\s*;', why='struct LocalPoint'),
    dict(file=LP, decl_regex='bool\\s+bxy_\\s*,\\s*bz_\\s*;', why='struct LocalPoint'),
    dict(file=OB, decl_regex='PointID\\s+from_\\s*;\\s*PointID\\s+to_\\s*;\\s*double\\s+value_', why='struct Observation'),
    dict(file=OB, decl_regex='mutable\\s+bool\\s+active_', why='struct Observation'),
    dict(file=OB, decl_regex='double\\s+reduction_dh_', why='struct Observation'),
    dict(file=OB, decl_regex='PointID\\s+fs_\\s*;', why='Angle::fs_'),
    dict(file=OB, decl_regex='\\b([XYZ])\\(const\\s+PointID&\\s+point\\s*,\\s*double\\s+\\w+\\)\\s*\\{\\s*init\\(point,\\s*""\\s*,', count=3,
         why='coordinate observations X, Y, Z are built with the empty target id (NOID in spec.c)'),
    dict(file=OB, decl_regex='class\\s+AllObservationsVisitor\\s*:\\s*public\\s+BaseVisitor\\s*,\\s*public\\s+Visitor<Direction>\\s*,\\s*'
         'public\\s+Visitor<Distance>\\s*,\\s*public\\s+Visitor<Angle>\\s*,\\s*public\\s+Visitor<H_Diff>\\s*,\\s*'
         'public\\s+Visitor<S_Distance>\\s*,\\s*public\\s+Visitor<Z_Angle>\\s*,\\s*public\\s+Visitor<X>\\s*,\\s*'
         'public\\s+Visitor<Y>\\s*,\\s*public\\s+Visitor<Z>\\s*,\\s*public\\s+Visitor<Xdiff>\\s*,\\s*public\\s+Visitor<Ydiff>\\s*,\\s*'
         'public\\s+Visitor<Zdiff>\\s*,\\s*public\\s+Visitor<Azimuth>\\s*\\{',
         why='gv_accept dispatches over exactly these 13 types'),
    dict(file=NET, decl_regex='class\\s+TestAbsTermVisitor\\s*:\\s*public\\s+GNU_gama::local::AllObservationsVisitor',
         why='the visitor sees all 13 types'),
    dict(file=NET, decl_regex='TestAbsTermVisitor\\(const\\s+Vec&\\s+bVector,\\s*double\\s+tolerance\\)\\s*:\\s*indm\\(0\\),\\s*stan\\(0\\),\\s*'
         'cil\\(0\\),\\s*b\\(bVector\\),\\s*tol_abs_\\(tolerance\\),\\s*val\\(0\\),\\s*d0\\(0\\)\\s*\\{\\s*\\}',
         why='constructor of TestAbsTermVisitor as modelled by TAV_ctor'),
    dict(file=NET, decl_regex='int\\s+indm;\\s*const\\s+LocalPoint\\*\\s+stan;\\s*const\\s+LocalPoint\\*\\s+cil;\\s*const\\s+Vec&\\s+b;\\s*'
         'double\\s+tol_abs_;\\s*double\\s+val;\\s*double\\s+d0;', why='struct TAV'),
    dict(file=NETH, decl_regex='typedef\\s+std::vector<GNU_gama::local::Observation\\*>\\s+RevisedObsList\\s*;', why='struct ObsVector'),
    dict(file=NETH, decl_regex='RevisedObsList\\s+revised_obs_\\s*;', why='struct LocalNetwork'),
    dict(file=NETH, decl_regex='\\bVec\\s+b\\s*;', why='struct LocalNetwork'),
    dict(file=NETH, decl_regex='PointData\\s+PD\\s*;', why='struct LocalNetwork'),
    dict(file=NETH, decl_regex='double\\s+tol_abs_\\s*;', why='struct LocalNetwork'),
    dict(file=NETH, decl_regex='int\\s+pocmer_\\s*;', why='struct LocalNetwork'),
    dict(file=NETH, decl_regex='bool\\s+vybocujici_abscl_\\s*;', why='struct LocalNetwork'),
    dict(file=NET, decl_regex='pocmer_\\s*=\\s*revised_obs_\\.size\\(\\)\\s*;', why='precondition revised_obs_.size() == pocmer_'),
    dict(file=NET, decl_regex='b\\.reset\\(pocmer_\\)\\s*;', why='precondition b.dim() == pocmer_'),
    dict(file=NET, decl_regex='b\\(\\+\\+r\\)\\s*=\\s*loclin\\.rhs\\s*;', why='b(i) is the linearised absolute term when the tested loop of project_equations runs'),
    dict(file=NET, decl_regex='vybocujici_abscl_\\s*=\\s*false\\s*;\\s*\\{\\s*for\\s*\\([^{}]*\\)\\s*\\{[^{}]*\\}\\s*\\}\\s*prepareProjectEquations\\(\\)\\s*;',
         why='the tested loop of project_equations runs BEFORE b is homogenised'),
    dict(file=NET, decl_regex='for\\s*\\(int\\s+l=1;\\s*l<=N;\\s*l\\+\\+\\)\\s*b\\(ind_0\\+l\\)\\s*=\\s*t\\(l\\)\\s*;',
         why='prepareProjectEquations overwrites b with the homogenised right-hand side (ghost G.b_raw)'),
]

revision = {
    'bool LocalRevision::distance(const Distance* obs) const': 2,
    'bool LocalRevision::direction(const Direction* obs) const': 2,
    'bool LocalRevision::angle(const Angle* obs) const': 3,
    'bool LocalRevision::s_distance(const S_Distance* obs) const': 2,
    'bool LocalRevision::z_angle(const Z_Angle* obs) const': 2,
    'bool LocalRevision::azimuth(const Azimuth* obs) const': 2,
}

unit = {
    'name': 'abs_term',
    'properties': ['C14'],
    'pre': ['abs_pre.py'],
    'trusted_base': [
        'CBMC 6.11 C front end, pointer and IEEE-754 models (fabs = __CPROVER_fabs, the IEEE operation)',
        'ASSUMED contract of libm sqrt (stub abs_sqrt): a symbol r with r >= 0, r > 0 iff x > 0, r <= max(1, x); obligation at every call: argument >= 0 (not NaN); the obligations fix WHICH argument reaches sqrt',
        'Vec::operator()(Index) const is replaced by its contract MV_CONTRACT_Vec_at_const of units/matvec_index/matvec_spec.h (proved there): index within 1..dim is an obligation at every b(indm)',
        'acyclic-visitor dispatch Observation::accept(BaseVisitor*) is modelled by gv_accept: a 13-way switch on the dynamic type calling the extracted visit(T*) (the base list of AllObservationsVisitor and of TestAbsTermVisitor is checked by abs_pre.py)',
        'constructor of TestAbsTermVisitor is modelled by TAV_ctor (initialiser list checked verbatim by abs_pre.py); std::vector<Observation*> is modelled as (data, size) with operator[] asserting index < size, begin/end as data, data+size',
        'std::map<PointID,LocalPoint> is modelled over 3 points: operator[] by PointData_at (a missing id is an obligation failure: the real operator[] inserts a default point), find()/end() by PointData_find (pointer to the mapped point / NULL; never modifies the map); dynamic_cast<const Angle*> by the type tag',
        'ASSUMED contract of std::hypot (stub abs_hypot_d, which receives the four coordinates the two differences are formed from): a number >= 0',
        'in the two loop checks test_abs_term is the stub gvs_test_abs_term: ASSERTS the preconditions of the contract proved in check test_abs_term (index in 1..pocmer_, b unscaled, calls in order), returns a harness-chosen value for the ghost index and an arbitrary one otherwise, changes nothing else (frame proved in check test_abs_term)',
        'project_equations() inside huge_abs_terms() is the stub gvs_project_equations: leaves the (arbitrary, well-formed) revised observation list in place, sets the three validity flags and an arbitrary vybocujici_abscl_, and records that b now holds the HOMOGENISED right-hand side (prepareProjectEquations; checked by abs_pre.py)',
    ],
    'assumptions': [
        'C14 is claimed only for its per-function clause "an observation is excluded for a gross absolute term exactly when its positional misclosure exceeds tol-abs"; the reporting clauses and the equality with the run on the reduced input relate complete runs / text output and are NOT covered',
        'positional misclosure defined by hand in spec.c (doc/gama-local-adj.texi, node "Gross absolute terms", agrees): length types |observed - computed| * 1000 mm; angular types |b| [cc] * pi/200e4 * sight length [m] * 1000 = |b| * length / (2000/pi) mm, length = horizontal distance (direction, azimuth), slope distance (zenith angle), the LONGER arm (angle); "exceeds" is strict (>), a NaN misclosure does not exceed (shown unreachable under the stated bounds)',
        'value identities are exact IEEE identities with the association written in spec.c; |a-b| may be computed as |b-a| and squares of differences in either orientation (identical values in IEEE arithmetic)',
        'stated preconditions: |coordinates| <= 1e9 m, |observed value| <= 1e12, |b(i)| <= 1e300, tol-abs is a number; 1 <= number of observations <= 1e7; the observation passed LocalRevision (both/all three points have xy for the types that use the horizontal distance: checked on local_revision.cpp by abs_pre.py); point ids of the observation are present in the point map, except the empty target id of coordinate observations',
        'PointData is modelled as an array of 3 points indexed by PointID = int (distinct ids are distinct points); class hierarchy of Observation flattened (type tag + Angle::fs_)',
    ],
    'modelled_fields': modelled,
    'revision_needs_xy': revision,
    'common_rules': common_rules,
    'functions': fns,
    'checks': checks,
}
json.dump(unit, open('/verif/units/abs_term/unit.json', 'w'), indent=1)
print(len(fns), 'functions', len(checks), 'checks')
