/* Sidecar contracts for the test of gross absolute terms (property C14, clause "an observation is excluded for a gross
   absolute term exactly when its positional misclosure exceeds tol-abs"):
     class TestAbsTermVisitor (lib/gnu_gama/local/network.cpp): value, setIndex, setFromTo, check, 13 x visit(T*),
     LocalNetwork::test_abs_term, the loop of LocalNetwork::project_equations that sets vybocujici_abscl_,
     LocalNetwork::huge_abs_terms, LocalNetwork::remove_huge_abs_terms (+ LocalNetwork::update, getters).
   Only contracts, ghost state, callee stubs and harnesses live here; every body is extracted from /repo on every run.

   POSITIONAL MISCLOSURE m_T, derived by hand (mm).  F = from = stand point, T = to = target.
     length-type observable (distance, slope distance, height difference, coordinate, coordinate difference):
        m = |observed - computed from the approximate coordinates| [m] * 1000 [mm/m]
        computed:  distance   hor(F,T) = sqrt((yF-yT)^2 + (xF-xT)^2)
                   s-distance slo(F,T) = sqrt((zF-zT)^2 + hor^2)
                   h-diff     zT - zF           (height of the target above the stand point)
                   x, y, z    coordinate of THE point (= from)
                   xdiff ...  cT - cF
     angular observable (direction, angle, azimuth, zenith angle): the right-hand side b of its project equation is an
        angle in cc (1 cc = 1e-4 gon = pi/200e4 rad); turned into the transverse displacement of the target at the
        sight length L [m]:   m = |b| * (pi/200e4) * L * 1000 mm = |b| * L * pi/2000 = |b| * L / (2000/pi),
        i.e. |b| * L / (10*R2G) with R2G = 200/pi.
        L:  direction, azimuth  hor(F,T);   zenith angle  slo(F,T) (the SLOPE length: the target moves perpendicular to
            the line of sight in the vertical plane);   angle  the LONGER of its two arms max(hor(F,bs), hor(F,fs))
            (an angle error displaces either target; doc/gama-local-adj.texi, node "Gross absolute terms", says the same:
            |b_i| max{d_0l, d_0r} > tol-abs).
   DECISION: flagged  <=>  m > tol-abs  (strict: "exceeds"; the documentation writes > as well).  A NaN misclosure does
   not exceed anything; the visit contracts show that m is a number under the stated bounds.
   test_abs_term() returns "0 or the absolute term": flagged is `value != 0`.

   KNOWN FINDINGS kept as failing obligations, each with an exclusion predicate (native_demo.cpp):
     GV_EXCL_UNIT_WEIGHTS          remove_huge_abs_terms() (and the listing of outlying terms) call test_abs_term AFTER
                                   project_equations() has overwritten b with the homogenised right-hand side;
                                   predicate: homogenisation is the identity (uncorrelated, stdDev == m0_apr)
     GV_EXCL_NONZERO_TERM          "0 or the term": `value != 0` hides an outlier whose stored term b(indm) is exactly 0;
                                   predicate: not (m > tol-abs and b(indm) == 0).  Reachable only because of the first
                                   finding (a homogenised term can vanish) or with tol-abs < 0: with the raw term and
                                   tol-abs >= 0, m > tol-abs implies b != 0.
   REPAIRED in /repo after this unit reported them: test_abs_term used PD[m->to()] for coordinate observations (inserted a
   point with the empty id; 29733db) and tested an angle on its bs arm only (7cdeba6: the FARTHER of to() and fs() is now
   handed to the visitor by test_abs_term; visit(Angle*) legitimately uses the d0 it is given).                    */

//@ prelude
#include "abs_gen.h" /* generated from the repository by abs_pre.py: M_PI, R2G (float.h), enum Update (network.h) */
#include "../matvec_index/matvec_spec.h" /* struct Vec, WF_MEM, MV_CONTRACT_Vec_at_const, MV_SAMEVAL */

typedef int PointID;
#define NOID (-1) /* the empty point id "": X, Y, Z are constructed with init(point, "", value) (abs_pre.py) */

struct LocalPoint {
  double x_, y_, z_;
  bool bxy_, bz_;
  int ix_, iy_, iz_;
  double x0_, y0_, z0_;
  int pst_;
};
enum ObsType { T_Distance, T_Direction, T_Angle, T_H_Diff, T_S_Distance, T_Z_Angle, T_X, T_Y, T_Z, T_Xdiff, T_Ydiff, T_Zdiff, T_Azimuth, T_COUNT };
struct Observation {
  int gv_type; /* dynamic type */
  PointID from_, to_;
  double value_;
  bool active_;
  double from_dh_, to_dh_;
  double reduction_dh_;
  PointID fs_; /* Angle */
};
#define NPTS 3
struct PointData {
  struct LocalPoint pts[NPTS];
};
struct ObsVector { /* std::vector<Observation*> */
  struct Observation **data;
  int size;
};
struct TAV { /* TestAbsTermVisitor */
  int indm;
  const struct LocalPoint *stan;
  const struct LocalPoint *cil;
  const struct Vec *b;
  double tol_abs_;
  double val;
  double d0;
};
struct LocalNetwork {
  struct PointData PD;
  struct ObsVector revised_obs_;
  int pocmer_;
  double tol_abs_;
  struct Vec b;
  bool vybocujici_abscl_;
  bool tst_redbod_, tst_redmer_, tst_rov_opr_, tst_vyrovnani_;
};

int gv_exc;

/* P = prophecy values chosen by the harness (read only); G = ghost record written by stubs and ghost statements */
struct abs_prophecy {
  double sqrt_ret[2]; /* [0] horizontal distance computed by setFromTo, [1] slope distance computed by a visit */
  double hyp_ret[2];  /* std::hypot #0: stand point -> to(), #1: stand point -> fs() (angle, test_abs_term) */
  double tat_ret_k0;  /* what test_abs_term returns for the ghost index gv_k0 (loop checks) */
  bool pe_flag;       /* vybocujici_abscl_ as left by project_equations() (remove_huge_abs_terms check) */
  bool act0;          /* active() of observation gv_k0 before remove_huge_abs_terms */
  PointID from0, to0; /* ... and its other fields as found */
  double value0;
  int type0;
} P;
struct abs_record {
  int nsqrt;
  double sqrt_arg[2];
  int chk_n;       /* calls of check() */
  double chk_arg;  /* its last argument */
  const struct LocalPoint *d0_from, *d0_to; /* the pair of points whose horizontal distance d0 currently holds */
  bool b_raw;      /* b holds the absolute terms as linearised (cc / mm), not the homogenised right-hand side */
  int tat_calls;   /* calls of test_abs_term (loop checks) */
  bool tat_any;    /* some call returned non-zero */
  int pe_calls;
  int nhyp;                 /* calls of std::hypot, with the four coordinates each difference was formed from */
  double hyp_a1[2], hyp_b1[2], hyp_a2[2], hyp_b2[2];
  /* the last visit(T*): which overload, on which observation, with which visitor state */
  int vis_n, vis_type, vis_indm;
  const struct Observation *vis_obs;
  const struct LocalPoint *vis_stan, *vis_cil;
  const struct Vec *vis_b;
  double vis_tol;
} G;
int gv_k0; /* ghost index 1..pocmer_ (forall-introduction) */
struct Observation *gv_m; /* the observation under test (test_abs_term check) */

/* std::hypot(a1 - b1, a2 - b2) as a symbol.  The lowering rule hands the stub the four coordinates instead of the two
   differences (a tagged operation: the contract then compares OPERANDS bit for bit instead of two subtracter circuits).
   Assumed libm contract: the result is a number >= 0 (finite coordinates). */
double abs_hypot_d(double a1, double b1, double a2, double b2)
{
  __CPROVER_assert(G.nhyp == 0 || G.nhyp == 1, "at most two hypot calls per tested observation");
  const int k = G.nhyp == 0 ? 0 : 1;
  double r = P.hyp_ret[k];
  __CPROVER_assume(r >= 0);
  G.hyp_a1[k] = a1; G.hyp_b1[k] = b1; G.hyp_a2[k] = a2; G.hyp_b2[k] = b2;
  G.nhyp++;
  return r;
}

/* libm sqrt as a symbol */
double abs_sqrt(double x)
{
  __CPROVER_assert(G.nsqrt == 0 || G.nsqrt == 1, "at most two sqrt calls per tested observation");
  __CPROVER_assert(x >= 0, "sqrt argument is non-negative");
  double r = P.sqrt_ret[G.nsqrt == 0 ? 0 : 1];
  __CPROVER_assume(r >= 0 && (x > 0 ? r > 0 : r == 0) && (x <= 1 ? r <= 1 : r <= x)); /* assumed libm contract */
  G.sqrt_arg[G.nsqrt == 0 ? 0 : 1] = x;
  G.nsqrt++;
  return r;
}

/* std::map<PointID,LocalPoint>::operator[] : inserts a default point when the id is missing */
struct LocalPoint *PointData_at(struct PointData *pd, PointID id)
{
  __CPROVER_assert(0 <= id && id < NPTS, "PD[id]: the id is present in the point map (std::map::operator[] INSERTS a default point otherwise)");
  return &pd->pts[0 <= id && id < NPTS ? id : 0];
}
/* std::map::find: the iterator is modelled as a pointer to the mapped point, end() as NULL; never modifies the map */
const struct LocalPoint *PointData_find(const struct PointData *pd, PointID id)
{
  return (0 <= id && id < NPTS) ? &pd->pts[id] : NULL;
}
/* dynamic_cast<const Angle*>(m) */
const struct Observation *gv_dyn_Angle(const struct Observation *m);

/* std::vector<Observation*> */
struct Observation **gv_vec_at(struct ObsVector *v, int i)
{
  __CPROVER_assert(0 <= i && i < v->size, "std::vector::operator[]: index < size()");
  return &v->data[i];
}
#define gv_vec_begin(v) ((v)->data)
/* `*m` for an iterator m of revised_obs_ (remove_huge_abs_terms check).  Stated structure precondition: entry k of
   revised_obs_ points to observation k of the block gv_objs (distinct observations: revision_observations pushes each
   active observation once).  It is instantiated at the range-checked position of m, and the object is then named
   through the block (an anchor: cbmc cannot follow a pointer it read from a symbolic-size array). */
struct Observation *gv_objs; /* the observations behind revised_obs_ */
struct Observation *gv_iter_deref(struct ObsVector *v, struct Observation **m)
{
  __CPROVER_assert(SAME(m, v->data), "iterator points into revised_obs_");
  long k = (OFF(m) - OFF(v->data)) / (long)sizeof(struct Observation *);
  GV_INST(0 <= k && k < v->size && OFF(m) == OFF(v->data) + k * (long)sizeof(struct Observation *), *m == &gv_objs[k]);
  return &gv_objs[k];
}
#define gv_vec_end(v) ((v)->data + (v)->size)

/* constructor TestAbsTermVisitor(const Vec& bVector, double tolerance) : indm(0), stan(0), cil(0), b(bVector),
   tol_abs_(tolerance), val(0), d0(0) {}   -- the initialiser list is checked verbatim by abs_pre.py */
static inline void TAV_ctor(struct TAV *self, const struct Vec *bVector, double tolerance)
{
  self->indm = 0;
  self->stan = 0;
  self->cil = 0;
  self->b = bVector;
  self->tol_abs_ = tolerance;
  self->val = 0;
  self->d0 = 0;
}

const struct Observation *gv_dyn_Angle(const struct Observation *m) { return m->gv_type == T_Angle ? m : NULL; }
/* prototypes of extracted functions (definition order = unit.json order) */
double Observation_reduction(const struct Observation *self);
Float Vec_at_const(const struct Vec *self, Index n);
void TAV_check(struct TAV *self, double value);
#define VISIT_PROTO(T) void TAV_visit_##T(struct TAV *self, struct Observation *obs);
VISIT_PROTO(Distance) VISIT_PROTO(Direction) VISIT_PROTO(Angle) VISIT_PROTO(H_Diff) VISIT_PROTO(S_Distance)
VISIT_PROTO(Z_Angle) VISIT_PROTO(X) VISIT_PROTO(Y) VISIT_PROTO(Z) VISIT_PROTO(Xdiff) VISIT_PROTO(Ydiff)
VISIT_PROTO(Zdiff) VISIT_PROTO(Azimuth)

/* Observation::accept(BaseVisitor*) for a visitor that derives from Visitor<T> for all 13 types */
void gv_accept(struct Observation *m, struct TAV *v)
{
  switch (m->gv_type) {
  case T_Distance: TAV_visit_Distance(v, m); break;
  case T_Direction: TAV_visit_Direction(v, m); break;
  case T_Angle: TAV_visit_Angle(v, m); break;
  case T_H_Diff: TAV_visit_H_Diff(v, m); break;
  case T_S_Distance: TAV_visit_S_Distance(v, m); break;
  case T_Z_Angle: TAV_visit_Z_Angle(v, m); break;
  case T_X: TAV_visit_X(v, m); break;
  case T_Y: TAV_visit_Y(v, m); break;
  case T_Z: TAV_visit_Z(v, m); break;
  case T_Xdiff: TAV_visit_Xdiff(v, m); break;
  case T_Ydiff: TAV_visit_Ydiff(v, m); break;
  case T_Zdiff: TAV_visit_Zdiff(v, m); break;
  case T_Azimuth: TAV_visit_Azimuth(v, m); break;
  default: __CPROVER_assert(0, "the observation has one of the 13 types of AllObservationsVisitor");
  }
}

/* ---- stubs used by the two loop checks ------------------------------------------------------------------------ */
#define NMAX 10000000
/* LocalNetwork::test_abs_term(int): the preconditions of its contract are ASSERTED, the verdict is arbitrary (fixed
   for the ghost index), nothing else changes (frame: check test_abs_term). */
double gvs_test_abs_term(struct LocalNetwork *self, int indm)
{
  __CPROVER_assert(1 <= indm && indm <= self->pocmer_, "test_abs_term precondition: 1 <= index <= number of observations");
  __CPROVER_assert(G.b_raw, "test_abs_term precondition: b holds the absolute terms as linearised, not the homogenised right-hand side");
  __CPROVER_assert(indm == G.tat_calls + 1, "observations are tested in order, each exactly once");
  G.tat_calls++;
  double any;
  double r = (indm == gv_k0) ? P.tat_ret_k0 : any;
  if (r != 0) G.tat_any = 1;
  return r;
}
#ifdef GV_EXCL_UNIT_WEIGHTS
#define B_RAW_AFTER_PE 1 /* uncorrelated observations with stdDev == m0_apr: the homogenised right-hand side IS b */
#else
#define B_RAW_AFTER_PE 0
#endif
/* LocalNetwork::project_equations() as seen by remove_huge_abs_terms: the harness-built state IS the (arbitrary,
   well-formed) state after it; afterwards b is homogenised (prepareProjectEquations). */
void gvs_project_equations(struct LocalNetwork *self)
{
  self->tst_redbod_ = self->tst_redmer_ = self->tst_rov_opr_ = 1;
  self->vybocujici_abscl_ = P.pe_flag;
  G.b_raw = B_RAW_AFTER_PE;
  G.pe_calls++;
}

/* ---- vocabulary ----------------------------------------------------------------------------------------------- */
#define G_SQRT G.nsqrt, G.sqrt_arg
#define G_CHK G.chk_n, G.chk_arg
#define G_VIS G.vis_n, G.vis_type, G.vis_indm, G.vis_obs, G.vis_stan, G.vis_cil, G.vis_b, G.vis_tol
/* ABS_VALUES=0 (check test_abs_term only): the floating-point clauses of the REPLACED contracts (visit, setFromTo) are
   left out -- a sub-contract of the one proved with ABS_VALUES=1 in the checks visit_<T> / setFromTo; test_abs_term needs
   only their structural clauses, and a SAT back end drowns in thirteen unused multiplier circuits */
#ifndef ABS_VALUES
#define ABS_VALUES 1
#endif
#if ABS_VALUES
#define VALUES_ONLY(e) (e)
#else
#define VALUES_ONLY(e) 1
#endif
#define NUM(v) ((v) == (v)) /* not NaN */
#define FIN(v, m) (-(m) <= (v) && (v) <= (m))
#define CMAX 1e9
#define DMAX 1e19 /* sqrt(x) <= max(1,x), x <= 8e18 */
#define BMAX 1e300
#define COORDS_OK(p) (FIN((p)->x_, CMAX) && FIN((p)->y_, CMAX) && FIN((p)->z_, CMAX))
#define VALUE(o) ((o)->value_ + (o)->reduction_dh_) /* observed value reduced to the marks */
#define OBS_FIN(o) (FIN((o)->value_, 1e12) && FIN((o)->reduction_dh_, 1e12))
#define BI(v) ((v)->b->mem.rep[(v)->indm - 1])      /* b(indm) */

#define K_CC2MM (2000.0 / M_PI)                              /* = 10*R2G */
#define ANG_MM(b, len) __CPROVER_fabs((b) * (len) / K_CC2MM) /* |b| L / (2000/pi) */
#define LEN_MM(a, b) (__CPROVER_fabs((a) - (b)) * 1000)      /* |a - b| m -> mm */
#define LEN_MM_R(a, b) LEN_MM(b, a)
#define GV_MAXD(a, b) ((a) >= (b) ? (a) : (b))
#ifdef GV_EXCL_NONZERO_TERM
#define EXCL_ZERO(b, m, tol) (!((m) > (tol) && (b) == 0))
#else
#define EXCL_ZERO(b, m, tol) 1
#endif
/* the misclosure of an observation of type T; L = LEN_MM (observed - computed) or LEN_MM_R (computed - observed) */
#define M_Distance(L, o, F, T, bi, hor, slo) L(VALUE(o), hor)
#define M_Direction(L, o, F, T, bi, hor, slo) ANG_MM(bi, hor)
#define M_Angle(L, o, F, T, bi, hor, slo) ANG_MM(bi, hor) /* hor: distance to the target the visitor was given (test_abs_term gives the farther arm) */
#define M_H_Diff(L, o, F, T, bi, hor, slo) L(VALUE(o), (T)->z_ - (F)->z_)
#define M_S_Distance(L, o, F, T, bi, hor, slo) L(VALUE(o), slo)
#define M_Z_Angle(L, o, F, T, bi, hor, slo) ANG_MM(bi, slo)
#define M_X(L, o, F, T, bi, hor, slo) L(VALUE(o), (F)->x_)
#define M_Y(L, o, F, T, bi, hor, slo) L(VALUE(o), (F)->y_)
#define M_Z(L, o, F, T, bi, hor, slo) L(VALUE(o), (F)->z_)
#define M_Xdiff(L, o, F, T, bi, hor, slo) L(VALUE(o), (T)->x_ - (F)->x_)
#define M_Ydiff(L, o, F, T, bi, hor, slo) L(VALUE(o), (T)->y_ - (F)->y_)
#define M_Zdiff(L, o, F, T, bi, hor, slo) L(VALUE(o), (T)->z_ - (F)->z_)
#define M_Azimuth(L, o, F, T, bi, hor, slo) ANG_MM(bi, hor)
#define IS_M(m, Ty, o, F, T, bi, hor, slo) \
  (MV_SAMEVAL(m, M_##Ty(LEN_MM, o, F, T, bi, hor, slo)) || MV_SAMEVAL(m, M_##Ty(LEN_MM_R, o, F, T, bi, hor, slo)))
#define USES_D0(ty) ((ty) == T_Distance || (ty) == T_Direction || (ty) == T_Angle || (ty) == T_S_Distance || (ty) == T_Z_Angle || (ty) == T_Azimuth)
#define USES_SLOPE(ty) ((ty) == T_S_Distance || (ty) == T_Z_Angle)
#define ONE_POINT(ty) ((ty) == T_X || (ty) == T_Y || (ty) == T_Z)

/* what reached sqrt: squares of differences in either orientation, sums in either order (identical IEEE values) */
#define SQD(p, q) (((p) - (q)) * ((p) - (q)))
#define HSQ_OF(i, a, c)                                                                                    \
  (G.sqrt_arg[i] == SQD((a)->y_, (c)->y_) + SQD((a)->x_, (c)->x_) || G.sqrt_arg[i] == SQD((c)->y_, (a)->y_) + SQD((c)->x_, (a)->x_) || \
   G.sqrt_arg[i] == SQD((a)->x_, (c)->x_) + SQD((a)->y_, (c)->y_) || G.sqrt_arg[i] == SQD((c)->x_, (a)->x_) + SQD((c)->y_, (a)->y_))
#define SLOPE_OF(i, a, c, hor)                                                                             \
  (G.sqrt_arg[i] == SQD((a)->z_, (c)->z_) + (hor) * (hor) || G.sqrt_arg[i] == SQD((c)->z_, (a)->z_) + (hor) * (hor) || \
   G.sqrt_arg[i] == (hor) * (hor) + SQD((a)->z_, (c)->z_) || G.sqrt_arg[i] == (hor) * (hor) + SQD((c)->z_, (a)->z_))

/* the visitor object with its vector b and a valid index */
#define TAV_SHAPE(v)                                                                                        \
  (__CPROVER_rw_ok((v), sizeof(struct TAV)) && __CPROVER_r_ok((v)->b, sizeof(struct Vec)) && WF_MEM(&(v)->b->mem) && \
   1 <= (v)->indm && (v)->indm <= (v)->b->mem.sz && (v)->b->mem.sz <= NMAX && !SAME((v), (v)->b) && !SAME((v), (v)->b->mem.rep))
#define GHOST_OK (0 <= G.chk_n && G.chk_n < 1000)
/* check() was applied to the recorded argument */
#define CHECKED(v) ((G.chk_arg > (v)->tol_abs_) ? MV_SAMEVAL((v)->val, BI(v)) : (v)->val == 0)
/* visit(T*) */
#define VIS_SHAPE1(v, o)                                                                                    \
  (TAV_SHAPE(v) && __CPROVER_r_ok((v)->stan, sizeof(struct LocalPoint)) && __CPROVER_r_ok((v)->cil, sizeof(struct LocalPoint)) && \
   __CPROVER_r_ok((o), sizeof(struct Observation)) && !SAME((v), (v)->stan) && !SAME((v), (v)->cil) && !SAME((v), (o)) && \
   NUM((v)->tol_abs_) && FIN(BI(v), BMAX) && OBS_FIN(o) && COORDS_OK((v)->stan) && G.chk_n == 0 && G.vis_n == 0 && (G.nsqrt == 0 || G.nsqrt == 1))
#define VIS_SHAPE2(v, o) (VIS_SHAPE1(v, o) && COORDS_OK((v)->cil))
/* d0 is the horizontal distance of the CURRENT pair (set by setFromTo when both points have xy) */
#define D0_CUR(v) (G.d0_from == (v)->stan && G.d0_to == (v)->cil && 0 <= (v)->d0 && (v)->d0 <= DMAX)
#define VIS_REC_STMT(Ty) do { G.vis_n++; G.vis_type = T_##Ty; G.vis_indm = self->indm; G.vis_obs = obs; G.vis_stan = self->stan; \
                              G.vis_cil = self->cil; G.vis_b = self->b; G.vis_tol = self->tol_abs_; } while (0) /* ghost record */
#define VIS_REC(Ty)                                                                                          \
  (G.vis_n == __CPROVER_old(G.vis_n) + 1 && G.vis_type == T_##Ty && G.vis_indm == self->indm && G.vis_obs == obs &&      \
   G.vis_stan == self->stan && G.vis_cil == self->cil && G.vis_b == self->b && MV_SAMEVAL(G.vis_tol, self->tol_abs_))
#define VIS_IS_M_(Ty) IS_M(G.chk_arg, Ty, obs, self->stan, self->cil, BI(self), self->d0, P.sqrt_ret[1])
#define VIS_IS_M_Distance VIS_IS_M_(Distance)
#define VIS_IS_M_Direction VIS_IS_M_(Direction)
#define VIS_IS_M_Angle VIS_IS_M_(Angle)
#define VIS_IS_M_H_Diff VIS_IS_M_(H_Diff)
#define VIS_IS_M_S_Distance VIS_IS_M_(S_Distance)
#define VIS_IS_M_Z_Angle VIS_IS_M_(Z_Angle)
#define VIS_IS_M_X VIS_IS_M_(X)
#define VIS_IS_M_Y VIS_IS_M_(Y)
#define VIS_IS_M_Z VIS_IS_M_(Z)
#define VIS_IS_M_Xdiff VIS_IS_M_(Xdiff)
#define VIS_IS_M_Ydiff VIS_IS_M_(Ydiff)
#define VIS_IS_M_Zdiff VIS_IS_M_(Zdiff)
#define VIS_IS_M_Azimuth VIS_IS_M_(Azimuth)
#define VIS_POST(Ty)                                                                                          \
  __CPROVER_ensures(G.chk_n == 1) /* check() called exactly once */                                           \
  __CPROVER_ensures(VALUES_ONLY(VIS_IS_M_##Ty)) /* with the positional misclosure m_T */                       \
  __CPROVER_ensures(VALUES_ONLY(NUM(G.chk_arg))) /* which is a number */                                     \
  __CPROVER_ensures(CHECKED(self))                                                                            \
  __CPROVER_ensures(VIS_REC(Ty) && (__CPROVER_old(G.nsqrt) == 1 ==> MV_SAMEVAL(G.sqrt_arg[0], __CPROVER_old(G.sqrt_arg[0]))))
/* the network as test_abs_term needs it: after revision and linearisation */
#define NET_SHAPE(n)                                                                                        \
  (__CPROVER_rw_ok((n), sizeof(struct LocalNetwork)) && 1 <= (n)->pocmer_ && (n)->pocmer_ <= NMAX &&             \
   (n)->revised_obs_.size == (n)->pocmer_ && __CPROVER_rw_ok((n)->revised_obs_.data, (n)->pocmer_ * sizeof(struct Observation *)) && \
   WF_MEM(&(n)->b.mem) && (n)->b.mem.sz == (n)->pocmer_ && NUM((n)->tol_abs_) &&                                 \
   !SAME((n), (n)->revised_obs_.data) && !SAME((n), (n)->b.mem.rep) && !SAME((n)->revised_obs_.data, (n)->b.mem.rep))
#define OBS_K(n, k) ((n)->revised_obs_.data[(k) - 1])
#define PT(n, id) (&(n)->PD.pts[id])
/* the observation passed LocalRevision: ids present (std::map::find), xy present where the revision asks for it */
#define REVISED(n, o)                                                                                       \
  (0 <= (o)->gv_type && (o)->gv_type < T_COUNT && 0 <= (o)->from_ && (o)->from_ < NPTS &&                        \
   (ONE_POINT((o)->gv_type) ? (o)->to_ == NOID : (0 <= (o)->to_ && (o)->to_ < NPTS && (o)->to_ != (o)->from_)) && \
   (USES_D0((o)->gv_type) ==> (PT(n, (o)->from_)->bxy_ && PT(n, (o)->to_)->bxy_)) &&                             \
   COORDS_OK(PT(n, (o)->from_)) && (ONE_POINT((o)->gv_type) || COORDS_OK(PT(n, (o)->to_))) &&                                                    \
   ((o)->gv_type == T_Angle ==> (0 <= (o)->fs_ && (o)->fs_ < NPTS && (o)->fs_ != (o)->from_ && PT(n, (o)->fs_)->bxy_ &&  \
                                 COORDS_OK(PT(n, (o)->fs_)))) && OBS_FIN(o))
/* test_abs_term(indm) */
#define TA_M gv_m /* == revised_obs_[indm-1] (required); named through a ghost pointer: cbmc 6.11 crashes on data[i]->field in a requires clause */
#define TA_F PT(self, TA_M->from_)
#define TA_T PT(self, TA_M->to_) /* used by the two-point types only */
#define TA_B (self->b.mem.rep[indm - 1])
#define TA_S PT(self, TA_M->fs_) /* angle: foresight */
/* hypot call #i measured the arm a -> c: differences c - a of x and of y, operands compared bit for bit */
#define HYP_OF(i, a, c) (MV_SAMEVAL(G.hyp_a1[i], (c)->x_) && MV_SAMEVAL(G.hyp_b1[i], (a)->x_) && MV_SAMEVAL(G.hyp_a2[i], (c)->y_) && MV_SAMEVAL(G.hyp_b2[i], (a)->y_))
/* remove_huge_abs_terms */
#define RH_SHAPE(n)                                                                                         \
  (__CPROVER_rw_ok((n), sizeof(struct LocalNetwork)) && 0 <= (n)->pocmer_ && (n)->pocmer_ <= NMAX &&             \
   (n)->revised_obs_.size == (n)->pocmer_ && __CPROVER_rw_ok((n)->revised_obs_.data, (n)->pocmer_ * sizeof(struct Observation *)) && \
   __CPROVER_rw_ok(gv_objs, (n)->pocmer_ * sizeof(struct Observation)) && !SAME((n), (n)->revised_obs_.data) &&  \
   !SAME((n), gv_objs) && !SAME(gv_objs, (n)->revised_obs_.data))
#define K0_OK(n) (1 <= gv_k0 && gv_k0 <= (n)->pocmer_)
#define OBJ0 (gv_objs[gv_k0 - 1])
#define OBJ0_SNAP (OBJ0.from_ == P.from0 && OBJ0.to_ == P.to0 && MV_SAMEVAL(OBJ0.value_, P.value0) && OBJ0.gv_type == P.type0)
//@ end

/* ================================================================================================================ */
//@ contract Vec_at_const
MV_CONTRACT_Vec_at_const
//@ entry Vec_at_const
/* where the real body is inlined the precondition of the contract is asserted here */
__CPROVER_assert(1 <= n && n <= self->mem.sz, "Vec::operator()(n): 1 <= n <= dim (precondition of MV_CONTRACT_Vec_at_const)");
//@ end

/* ---- value(): the result of the last check ---------------------------------------------------------------------- */
//@ contract TAV_value
__CPROVER_requires(__CPROVER_r_ok(self, sizeof(struct TAV)))
__CPROVER_assigns()
__CPROVER_ensures(MV_SAMEVAL(__CPROVER_return_value, self->val))
//@ entry TAV_value
GV_CANARY("TAV_value entry");
//@ end

/* ---- setIndex --------------------------------------------------------------------------------------------------- */
//@ contract TAV_setIndex
__CPROVER_requires(__CPROVER_rw_ok(self, sizeof(struct TAV)))
__CPROVER_assigns(self->indm)
__CPROVER_ensures(self->indm == observationIndex)
//@ entry TAV_setIndex
GV_CANARY("TAV_setIndex entry");
//@ end

/* ---- setFromTo: from = stand point, to = target; d0 = horizontal distance of the two points when BOTH have xy.
   When one of them lacks xy the code keeps the OLD d0: the contract records that d0 then still belongs to the OLD pair
   (ghost G.d0_from/G.d0_to); every visit that uses d0 REQUIRES that d0 belongs to the current pair (D0_CUR).  Through
   LocalNetwork the requirement holds: test_abs_term builds a fresh visitor per call and LocalRevision lets the six
   types that use d0 through only with xy on every point (abs_pre.py checks local_revision.cpp).               */
//@ contract TAV_setFromTo
__CPROVER_requires(__CPROVER_rw_ok(self, sizeof(struct TAV)) && __CPROVER_r_ok(from__p, sizeof(struct LocalPoint)) &&
                   __CPROVER_r_ok(to__p, sizeof(struct LocalPoint)) && !SAME(self, from__p) && !SAME(self, to__p))
__CPROVER_requires(COORDS_OK(from__p) && COORDS_OK(to__p) && G.nsqrt == 0)
__CPROVER_assigns(self->stan, self->cil, self->d0, G_SQRT, G.d0_from, G.d0_to)
__CPROVER_ensures(__CPROVER_pointer_equals(self->stan, from__p) && __CPROVER_pointer_equals(self->cil, to__p)) /* (pointer_equals: a replaced contract must GIVE the pointer its target, an == would leave it dangling in cbmc) */
__CPROVER_ensures((from__p->bxy_ && to__p->bxy_) ==>
                  (G.nsqrt == 1 && self->d0 == P.sqrt_ret[0] && VALUES_ONLY(HSQ_OF(0, from__p, to__p)) && G.d0_from == from__p && G.d0_to == to__p &&
                   0 <= self->d0 && self->d0 <= DMAX))
__CPROVER_ensures(!(from__p->bxy_ && to__p->bxy_) ==>
                  (G.nsqrt == 0 && MV_SAMEVAL(self->d0, __CPROVER_old(self->d0)) && G.d0_from == __CPROVER_old(G.d0_from) &&
                   G.d0_to == __CPROVER_old(G.d0_to)))
//@ entry TAV_setFromTo
GV_CANARY("TAV_setFromTo entry");
//@ at TAV_setFromTo fresh
G.d0_from = self->stan; G.d0_to = self->cil; /* ghost: d0 now belongs to this pair */
//@ end

/* ---- check(v): flagged (value() != 0) exactly when v > tol-abs; the flagged value is b(indm) ---------------------- */
//@ contract TAV_check
__CPROVER_requires(TAV_SHAPE(self) && GHOST_OK && NUM(self->tol_abs_))
#ifdef GV_EXCL_NONZERO_TERM
__CPROVER_requires(!(value > self->tol_abs_ && BI(self) == 0))
#endif
__CPROVER_assigns(self->val, G.chk_n, G.chk_arg)
__CPROVER_ensures(G.chk_n == __CPROVER_old(G.chk_n) + 1 && MV_SAMEVAL(G.chk_arg, value))
__CPROVER_ensures(value > self->tol_abs_ ==> MV_SAMEVAL(self->val, BI(self)))
__CPROVER_ensures(!(value > self->tol_abs_) ==> self->val == 0)
__CPROVER_ensures((self->val != 0) == (value > self->tol_abs_)) /* flagged exactly when the misclosure exceeds tol-abs */
//@ entry TAV_check
GV_CANARY("TAV_check entry");
G.chk_n++; G.chk_arg = value; /* ghost record */
//@ end

/* ---- visit(T*): check is called exactly once, with the positional misclosure of the type ---------------------- */
//@ contract TAV_visit_Distance
__CPROVER_requires(VIS_SHAPE2(self, obs) && D0_CUR(self))
__CPROVER_assigns(self->val, G_SQRT, G_CHK, G_VIS)
VIS_POST(Distance)
//@ entry TAV_visit_Distance
GV_CANARY("TAV_visit_Distance entry");
VIS_REC_STMT(Distance);
//@ contract TAV_visit_Direction
__CPROVER_requires(VIS_SHAPE2(self, obs) && D0_CUR(self))
__CPROVER_assigns(self->val, G_SQRT, G_CHK, G_VIS)
VIS_POST(Direction)
//@ entry TAV_visit_Direction
GV_CANARY("TAV_visit_Direction entry");
VIS_REC_STMT(Direction);
//@ contract TAV_visit_Angle
__CPROVER_requires(VIS_SHAPE2(self, obs) && D0_CUR(self))
__CPROVER_assigns(self->val, G_SQRT, G_CHK, G_VIS)
VIS_POST(Angle)
//@ entry TAV_visit_Angle
GV_CANARY("TAV_visit_Angle entry");
VIS_REC_STMT(Angle);
//@ contract TAV_visit_H_Diff
__CPROVER_requires(VIS_SHAPE2(self, obs))
__CPROVER_assigns(self->val, G_SQRT, G_CHK, G_VIS)
VIS_POST(H_Diff)
//@ entry TAV_visit_H_Diff
GV_CANARY("TAV_visit_H_Diff entry");
VIS_REC_STMT(H_Diff);
//@ contract TAV_visit_S_Distance
__CPROVER_requires(VIS_SHAPE2(self, obs) && D0_CUR(self) && G.nsqrt == 1)
__CPROVER_assigns(self->val, G_SQRT, G_CHK, G_VIS)
VIS_POST(S_Distance)
__CPROVER_ensures(G.nsqrt == 2 && SLOPE_OF(1, self->stan, self->cil, self->d0))
//@ entry TAV_visit_S_Distance
GV_CANARY("TAV_visit_S_Distance entry");
VIS_REC_STMT(S_Distance);
//@ contract TAV_visit_Z_Angle
__CPROVER_requires(VIS_SHAPE2(self, obs) && D0_CUR(self) && G.nsqrt == 1)
__CPROVER_assigns(self->val, G_SQRT, G_CHK, G_VIS)
VIS_POST(Z_Angle)
__CPROVER_ensures(G.nsqrt == 2 && SLOPE_OF(1, self->stan, self->cil, self->d0))
//@ entry TAV_visit_Z_Angle
GV_CANARY("TAV_visit_Z_Angle entry");
VIS_REC_STMT(Z_Angle);
//@ contract TAV_visit_X
__CPROVER_requires(VIS_SHAPE1(self, obs))
__CPROVER_assigns(self->val, G_SQRT, G_CHK, G_VIS)
VIS_POST(X)
//@ entry TAV_visit_X
GV_CANARY("TAV_visit_X entry");
VIS_REC_STMT(X);
//@ contract TAV_visit_Y
__CPROVER_requires(VIS_SHAPE1(self, obs))
__CPROVER_assigns(self->val, G_SQRT, G_CHK, G_VIS)
VIS_POST(Y)
//@ entry TAV_visit_Y
GV_CANARY("TAV_visit_Y entry");
VIS_REC_STMT(Y);
//@ contract TAV_visit_Z
__CPROVER_requires(VIS_SHAPE1(self, obs))
__CPROVER_assigns(self->val, G_SQRT, G_CHK, G_VIS)
VIS_POST(Z)
//@ entry TAV_visit_Z
GV_CANARY("TAV_visit_Z entry");
VIS_REC_STMT(Z);
//@ contract TAV_visit_Xdiff
__CPROVER_requires(VIS_SHAPE2(self, obs))
__CPROVER_assigns(self->val, G_SQRT, G_CHK, G_VIS)
VIS_POST(Xdiff)
//@ entry TAV_visit_Xdiff
GV_CANARY("TAV_visit_Xdiff entry");
VIS_REC_STMT(Xdiff);
//@ contract TAV_visit_Ydiff
__CPROVER_requires(VIS_SHAPE2(self, obs))
__CPROVER_assigns(self->val, G_SQRT, G_CHK, G_VIS)
VIS_POST(Ydiff)
//@ entry TAV_visit_Ydiff
GV_CANARY("TAV_visit_Ydiff entry");
VIS_REC_STMT(Ydiff);
//@ contract TAV_visit_Zdiff
__CPROVER_requires(VIS_SHAPE2(self, obs))
__CPROVER_assigns(self->val, G_SQRT, G_CHK, G_VIS)
VIS_POST(Zdiff)
//@ entry TAV_visit_Zdiff
GV_CANARY("TAV_visit_Zdiff entry");
VIS_REC_STMT(Zdiff);
//@ contract TAV_visit_Azimuth
__CPROVER_requires(VIS_SHAPE2(self, obs) && D0_CUR(self))
__CPROVER_assigns(self->val, G_SQRT, G_CHK, G_VIS)
VIS_POST(Azimuth)
//@ entry TAV_visit_Azimuth
GV_CANARY("TAV_visit_Azimuth entry");
VIS_REC_STMT(Azimuth);
//@ end

/* ---- test_abs_term(indm): the verdict for observation revised_obs_[indm-1], from / to of THAT observation ------- */
//@ contract LocalNetwork_test_abs_term
__CPROVER_requires(NET_SHAPE(self) && 1 <= indm && indm <= self->pocmer_)
__CPROVER_requires(OBS_K(self, indm) == TA_M && __CPROVER_r_ok(TA_M, sizeof(struct Observation)) && !SAME(TA_M, self) && REVISED(self, TA_M))
__CPROVER_requires(FIN(TA_B, BMAX) && G.b_raw && G.nsqrt == 0 && G.chk_n == 0 && G.vis_n == 0)
__CPROVER_requires(G.nhyp == 0)
__CPROVER_assigns(G) /* nothing of the network */
/* exactly one visit: the overload of the observation's dynamic type, applied to observation indm ... */
__CPROVER_ensures(G.vis_n == 1 && G.chk_n == 1 && G.vis_obs == TA_M && G.vis_type == TA_M->gv_type)
/* ... by a visitor whose stand point / target are from() / to() of THAT observation, whose index is indm, whose vector is
   b and whose tolerance is tol-abs: with the contract of that visit, G.chk_arg IS the positional misclosure m_T of
   observation indm */
/* stand point = from().  Target: the stand point itself for an observation without target (observed coordinate), the
   FARTHER of to() and fs() for an angle ("the greater of two deviations corresponding to left and right distances",
   doc/gama-local-adj.texi; either one when the arms are equally long), to() for every other type */
__CPROVER_ensures(G.vis_stan == TA_F)
__CPROVER_ensures(ONE_POINT(TA_M->gv_type) ==> G.vis_cil == TA_F)
__CPROVER_ensures((!ONE_POINT(TA_M->gv_type) && TA_M->gv_type != T_Angle) ==> G.vis_cil == TA_T)
__CPROVER_ensures(TA_M->gv_type == T_Angle ==>
                  (G.nhyp == 2 && HYP_OF(0, TA_F, TA_T) && HYP_OF(1, TA_F, TA_S) && /* the two arms are measured: hypot of from->to, from->fs */
                   (P.hyp_ret[1] > P.hyp_ret[0] ==> G.vis_cil == TA_S) && (P.hyp_ret[1] < P.hyp_ret[0] ==> G.vis_cil == TA_T) &&
                   (G.vis_cil == TA_S || G.vis_cil == TA_T)))
/* the point map is not modified (no insertion): nothing of the network is in the assigns clause */
__CPROVER_ensures(G.vis_indm == indm && G.vis_b == &self->b && MV_SAMEVAL(G.vis_tol, self->tol_abs_))
/* ... and whose d0 is the horizontal distance of exactly this pair (fresh visitor, setFromTo with both xy) */
__CPROVER_ensures(USES_D0(TA_M->gv_type) ==> (G.d0_from == TA_F && G.d0_to == G.vis_cil))
/* the verdict: flagged (result != 0) exactly when m_T > tol-abs; the flagged value is b(indm) */
__CPROVER_ensures(EXCL_ZERO(TA_B, G.chk_arg, self->tol_abs_) ==> ((__CPROVER_return_value != 0) == (G.chk_arg > self->tol_abs_)))
__CPROVER_ensures(G.chk_arg > self->tol_abs_ ==> MV_SAMEVAL(__CPROVER_return_value, TA_B))
__CPROVER_ensures(!(G.chk_arg > self->tol_abs_) ==> __CPROVER_return_value == 0)
//@ entry LocalNetwork_test_abs_term
GV_CANARY("LocalNetwork_test_abs_term entry");
//@ end

/* ---- the loop of project_equations: vybocujici_abscl_ <=> some observation is flagged ---------------------------
   The block follows the statement `vybocujici_abscl_ = false;` (the locator of the block, matched verbatim).      */
//@ contract LocalNetwork_pe_abs_block
__CPROVER_requires(__CPROVER_rw_ok(self, sizeof(struct LocalNetwork)) && 0 <= self->pocmer_ && self->pocmer_ <= NMAX)
__CPROVER_requires(!self->vybocujici_abscl_ && G.tat_calls == 0 && !G.tat_any && G.b_raw)
__CPROVER_assigns(self->vybocujici_abscl_, G)
__CPROVER_ensures(G.tat_calls == self->pocmer_) /* every observation 1..pocmer_ tested once, in order */
__CPROVER_ensures(self->vybocujici_abscl_ == G.tat_any)
__CPROVER_ensures((1 <= gv_k0 && gv_k0 <= self->pocmer_ && P.tat_ret_k0 != 0) ==> self->vybocujici_abscl_)
//@ entry LocalNetwork_pe_abs_block
GV_CANARY("LocalNetwork_pe_abs_block entry");
//@ loop LocalNetwork_pe_abs_block 1
__CPROVER_assigns(r, self->vybocujici_abscl_, G)
__CPROVER_loop_invariant(1 <= r && r <= (long)self->pocmer_ + 1 && G.tat_calls == r - 1 && self->vybocujici_abscl_ == G.tat_any &&
                         G.b_raw && ((1 <= gv_k0 && gv_k0 < r && P.tat_ret_k0 != 0) ==> G.tat_any))
__CPROVER_decreases((long)self->pocmer_ + 1 - r)
//@ end

/* ---- remove_huge_abs_terms: an observation is set passive exactly when test_abs_term flags it; nothing else ----- */
//@ contract LocalNetwork_remove_huge_abs_terms
__CPROVER_requires(RH_SHAPE(self) && G.tat_calls == 0 && !G.tat_any && G.pe_calls == 0)
__CPROVER_requires(K0_OK(self) ==> (self->revised_obs_.data[gv_k0 - 1] == &OBJ0 && (OBJ0.active_ != 0) == (P.act0 != 0) && OBJ0_SNAP))
__CPROVER_assigns(self->vybocujici_abscl_, self->tst_redbod_, self->tst_redmer_, self->tst_rov_opr_, self->tst_vyrovnani_, G,
                  __CPROVER_object_whole(gv_objs))
__CPROVER_ensures(G.pe_calls == 1)
/* no gross term: nothing happens */
__CPROVER_ensures(!P.pe_flag ==> (G.tat_calls == 0 && self->tst_redmer_ && self->tst_rov_opr_ && (K0_OK(self) ==> (OBJ0.active_ != 0) == (P.act0 != 0))))
/* otherwise every observation is tested once and is passive afterwards exactly when it was passive or is flagged */
__CPROVER_ensures(P.pe_flag ==> G.tat_calls == self->pocmer_)
__CPROVER_ensures((P.pe_flag && K0_OK(self)) ==> (OBJ0.active_ != 0) == ((P.act0 != 0) && !(P.tat_ret_k0 != 0)))
/* ... the stages downstream of the observation list are invalidated, the point revision is kept */
__CPROVER_ensures(P.pe_flag ==> (!self->tst_redmer_ && !self->tst_rov_opr_ && !self->tst_vyrovnani_))
__CPROVER_ensures(self->tst_redbod_)
/* nothing else of an observation is touched */
__CPROVER_ensures(K0_OK(self) ==> OBJ0_SNAP)
__CPROVER_ensures(self->pocmer_ == __CPROVER_old(self->pocmer_) && self->revised_obs_.size == __CPROVER_old(self->revised_obs_.size) &&
                  self->revised_obs_.data == __CPROVER_old(self->revised_obs_.data))
//@ entry LocalNetwork_remove_huge_abs_terms
GV_CANARY("LocalNetwork_remove_huge_abs_terms entry");
//@ loop LocalNetwork_remove_huge_abs_terms 1
__CPROVER_assigns(m, r, G, __CPROVER_object_whole(gv_objs))
__CPROVER_loop_invariant(0 <= r && r <= self->pocmer_ && SAME(m, self->revised_obs_.data) &&
                         OFF(m) == OFF(self->revised_obs_.data) + (long)r * (long)sizeof(struct Observation *) && G.tat_calls == r &&
                         G.pe_calls == 1 && G.b_raw == B_RAW_AFTER_PE &&
                         (K0_OK(self) ==> ((OBJ0.active_ != 0) == (gv_k0 <= r ? ((P.act0 != 0) && !(P.tat_ret_k0 != 0)) : (P.act0 != 0)) &&
                                           OBJ0_SNAP)))
__CPROVER_decreases(self->pocmer_ - r)
//@ head LocalNetwork_remove_huge_abs_terms 1
GV_ANCHOR(m, self->revised_obs_.data + r);
//@ end

//@ harness
/* The harnesses only build memory; every precondition is a `requires` of the enforced contract. */
static struct TAV gv_v;
static struct LocalPoint gv_F, gv_T;
static struct Observation gv_o;
static struct Vec gv_bv;
static struct LocalNetwork gv_net;

static void mk_ghost(void)
{
  struct abs_prophecy p;
  struct abs_record g;
  P = p;
  G = g;
}
static void mk_vec(struct Vec *bv)
{
  int n;
  __CPROVER_assume(1 <= n && n <= NMAX);
  bv->mem.sz = n;
  bv->mem.rep = malloc((size_t)n * sizeof(Float));
  __CPROVER_assume(bv->mem.rep != NULL);
}
static void mk_vis(void)
{
  struct TAV v;
  struct LocalPoint f, t;
  struct Observation o;
  gv_v = v;
  gv_F = f;
  gv_T = t;
  gv_o = o;
  mk_ghost();
  mk_vec(&gv_bv);
  gv_v.stan = &gv_F;
  gv_v.cil = &gv_T;
  gv_v.b = &gv_bv;
#ifdef ABS_SAMPLE
  /* checks <name>_sample: ONE concrete point (all symbols are constants, the SAT back end evaluates every obligation by
     constant propagation).  Second line behind the SMT checks: a wrong sign / factor / argument that changes the value
     at this point is reported at once even where the SMT solver does not find a counterexample in time. */
  gv_F.x_ = 1; gv_F.y_ = 2; gv_F.z_ = 3; gv_F.bxy_ = 1; gv_F.bz_ = 1;
  gv_T.x_ = 4; gv_T.y_ = 6; gv_T.z_ = 15; gv_T.bxy_ = 1; gv_T.bz_ = 1;
  gv_o.value_ = 13.5; gv_o.reduction_dh_ = 0.125;
  gv_v.d0 = 5; gv_v.tol_abs_ = 1000; gv_v.indm = 1; gv_v.val = 7;
  __CPROVER_assume(gv_bv.mem.sz == 1);
  gv_bv.mem.rep[0] = -2500.0;
  P.sqrt_ret[0] = 5; P.sqrt_ret[1] = 13;
  G.chk_n = 0; G.vis_n = 0; G.nsqrt = ABS_SAMPLE_NSQRT; G.d0_from = &gv_F; G.d0_to = &gv_T;
#endif
}
#define HARNESS(T)                             \
  void h_visit_##T(void)                       \
  {                                            \
    mk_vis();                                  \
    TAV_visit_##T(&gv_v, &gv_o);               \
    GV_CANARY("h_visit_" #T " end");           \
  }
HARNESS(Distance) HARNESS(Direction) HARNESS(Angle) HARNESS(H_Diff) HARNESS(S_Distance) HARNESS(Z_Angle) HARNESS(X)
HARNESS(Y) HARNESS(Z) HARNESS(Xdiff) HARNESS(Ydiff) HARNESS(Zdiff) HARNESS(Azimuth)

void h_value(void)
{
  mk_vis();
  double r = TAV_value(&gv_v);
  GV_CANARY("h_value end");
}
void h_setIndex(void)
{
  mk_vis();
  int i;
  TAV_setIndex(&gv_v, i);
  GV_CANARY("h_setIndex end");
}
void h_setFromTo(void)
{
  mk_vis();
  TAV_setFromTo(&gv_v, &gv_F, &gv_T);
  GV_CANARY("h_setFromTo end");
}
void h_check(void)
{
  mk_vis();
  double v;
  TAV_check(&gv_v, v);
  GV_CANARY("h_check end");
}
static void mk_net(void)
{
  struct LocalNetwork n;
  gv_net = n;
  mk_ghost();
  mk_vec(&gv_net.b);
  gv_net.pocmer_ = gv_net.b.mem.sz;
  gv_net.revised_obs_.size = gv_net.pocmer_;
  gv_net.revised_obs_.data = malloc((size_t)gv_net.pocmer_ * sizeof(struct Observation *));
  __CPROVER_assume(gv_net.revised_obs_.data != NULL);
}
void h_test_abs_term(void)
{
  mk_net();
  struct Observation o;
  gv_o = o;
  int indm;
  gv_m = &gv_o;
  if (1 <= indm && indm <= gv_net.pocmer_) gv_net.revised_obs_.data[indm - 1] = gv_m;
  double r = LocalNetwork_test_abs_term(&gv_net, indm);
  GV_CANARY("h_test_abs_term end");
}
void h_pe_abs_block(void)
{
  struct LocalNetwork n;
  gv_net = n;
  mk_ghost();
  int k;
  gv_k0 = k;
  LocalNetwork_pe_abs_block(&gv_net);
  GV_CANARY("h_pe_abs_block end");
}
void h_remove_huge(void)
{
  struct LocalNetwork n;
  gv_net = n;
  mk_ghost();
  int cnt, k;
  __CPROVER_assume(0 <= cnt && cnt <= NMAX);
  gv_k0 = k;
  gv_net.pocmer_ = cnt;
  gv_net.revised_obs_.size = cnt;
  gv_net.revised_obs_.data = malloc((size_t)cnt * sizeof(struct Observation *));
  gv_objs = malloc((size_t)cnt * sizeof(struct Observation));
  __CPROVER_assume(gv_net.revised_obs_.data != NULL && gv_objs != NULL);
  if (1 <= k && k <= cnt) gv_net.revised_obs_.data[k - 1] = &gv_objs[k - 1];
  LocalNetwork_remove_huge_abs_terms(&gv_net);
  GV_CANARY("h_remove_huge end");
}
//@ end
