/* Sidecar contract for the index map built by GamaLocalDeformation::init (lib/gnu_gama/local/deformation.cpp), property C12:
   "tools that consume it (compare-xyz, gama-local-deformation) report zero difference of a result with itself and the plain
   coordinate difference of two" -- mechanism "shift vectors and summed covariances of common points".
   t1[k] / t2[k] (1-based) give, for the k-th common adjusted coordinate, its position in the covariance matrix of epoch 1 /
   epoch 2.  The shift of that coordinate gets the variance cov1(t1[k], t1[k]) + cov2(t2[k], t2[k]); that is only right if
   entry k of BOTH vectors belongs to the SAME coordinate of the SAME point.

   UNDER CONTRACT: the per-record body of the walk `for (const auto& r : adjrec12) { ... }`, extracted verbatim.
   CONTRACT (from that meaning): both vectors grow by the same number of entries -- 2 for a point with plane coordinates
   adjusted in both epochs (x then y), plus 1 for a height adjusted in both epochs, in the order x, y, z -- and entry j
   appended to t1 is the epoch-1 index, entry j appended to t2 the epoch-2 index, of the same coordinate; a coordinate that
   is adjusted in one epoch only contributes nothing; earlier entries are untouched.                                      */

//@ prelude
#include <stdbool.h>
int gv_exc;
int gv_k0;   /* ghost index: an arbitrary earlier entry */
#define GV_CAP 8
struct IntVec { int a[GV_CAP]; int n; };
struct AdjRec { int indx1, indy1, indz1, indx2, indy2, indz2; };
struct MapEntry { int first; struct AdjRec second; };
struct Deformation { struct IntVec t1, t2; };
static void gv_push_back(struct IntVec *v, int x)
{
  __CPROVER_assert(v->n < GV_CAP, "push_back: at most three appends per record and vector");
  v->a[v->n] = x;
  v->n = v->n + 1;
}
#define R (&r__p->second)
#define XY(r) ((r)->indx1 != 0 && (r)->indx2 != 0)
#define ZZ(r) ((r)->indz1 != 0 && (r)->indz2 != 0)
//@ end

//@ contract Deformation_init_record
__CPROVER_requires(__CPROVER_rw_ok(self, sizeof(*self)) && __CPROVER_r_ok(r__p, sizeof(*r__p)))
__CPROVER_requires(0 <= self->t1.n && self->t1.n == self->t2.n && self->t1.n <= GV_CAP - 3)
__CPROVER_assigns(self->t1, self->t2)
/* both maps grow together, by the number of coordinates the two epochs have in common */
__CPROVER_ensures(self->t1.n == self->t2.n &&
                  self->t1.n == __CPROVER_old(self->t1.n) + (XY(R) ? 2 : 0) + (ZZ(R) ? 1 : 0))
/* plane coordinates: x then y, epoch-1 indices in t1, epoch-2 indices in t2 */
__CPROVER_ensures(XY(R) ==> (self->t1.a[__CPROVER_old(self->t1.n)] == R->indx1 && self->t1.a[__CPROVER_old(self->t1.n) + 1] == R->indy1 &&
                             self->t2.a[__CPROVER_old(self->t2.n)] == R->indx2 && self->t2.a[__CPROVER_old(self->t2.n) + 1] == R->indy2))
/* height: after the plane coordinates of the same point */
__CPROVER_ensures(ZZ(R) ==> (self->t1.a[__CPROVER_old(self->t1.n) + (XY(R) ? 2 : 0)] == R->indz1 &&
                             self->t2.a[__CPROVER_old(self->t2.n) + (XY(R) ? 2 : 0)] == R->indz2))
/* earlier entries are untouched (ghost index) */
__CPROVER_ensures((0 <= gv_k0 && gv_k0 < __CPROVER_old(self->t1.n)) ==>
                  (self->t1.a[gv_k0] == __CPROVER_old(self->t1.a[gv_k0]) && self->t2.a[gv_k0] == __CPROVER_old(self->t2.a[gv_k0])))
//@ entry Deformation_init_record
GV_CANARY("Deformation_init_record entry");
//@ end

//@ harness
void h_init_record(void)
{
  struct Deformation D;
  struct MapEntry e;
  int k0;
  __CPROVER_assume(0 <= D.t1.n && D.t1.n == D.t2.n && D.t1.n <= GV_CAP - 3);
  gv_k0 = k0;
  Deformation_init_record(&D, &e);
  GV_CANARY("h_init_record end");
}
//@ end
