// Native replay for unit "gkf_automaton" (property C11): feeds small documents through the PUBLIC API of the real
// GKFparser (the same calls gama-local makes: xml_parse line by line) and evaluates the property
//   "the input is either accepted or refused with an error that names a line of the input".
// exit 1 = a violation reproduces on the real code, 0 = does not reproduce, 2 = nothing to replay.
//
//   replay <inputs-file> <check-name>
// The counterexamples of this unit are (state, tag) pairs, not byte strings; the replay maps the failing
// obligation to the shortest document that drives the real parser into that pair.  Pairs that expat can never
// produce (endElement in state_start / state_stop: no element is open) have no document.
#include <cstdio>
#include <fstream>
#include <sstream>
#include <string>
#include <gnu_gama/local/network.h>
#include <gnu_gama/xml/gkfparser.h>
#include <gnu_gama/local/language.h>
#include "gv_replay.h"

using namespace GNU_gama::local;

namespace {

const char* head =
  "<?xml version=\"1.0\" ?>\n"
  "<gama-local xmlns=\"http://www.gnu.org/software/gama/gama-local\">\n"
  "<network>\n"
  "<points-observations>\n"
  "<point id=\"A\" x=\"0\" y=\"0\" fix=\"xy\"/>\n"
  "<point id=\"B\" adj=\"xy\"/>\n"
  "<point id=\"C\" adj=\"xy\"/>\n";
const char* tail =
  "<obs from=\"A\"><distance to=\"B\" val=\"14.1\" stdev=\"1\"/><distance to=\"C\" val=\"28.3\" stdev=\"1\"/></obs>\n"
  "<obs from=\"B\"><distance to=\"C\" val=\"14.1\" stdev=\"1\"/></obs>\n"
  "</points-observations>\n"
  "</network>\n"
  "</gama-local>\n";

struct Outcome { bool refused; int line; std::string text; };

Outcome parse(const std::string& doc)
{
  Outcome o{false, 0, ""};
  LocalNetwork lnet;
  GKFparser gkf(lnet);
  try
    {
      std::istringstream in(doc);
      std::string line;
      while (std::getline(in, line))
        {
          line += '\n';
          gkf.xml_parse(line.c_str(), (int)line.size(), 0);
        }
      gkf.xml_parse("", 0, 1);
    }
  catch (const ParserException& e)
    {
      o.refused = true;
      o.line = e.line;
      o.text = e.what();
    }
  return o;
}

// must_refuse: the document violates the grammar / numeric formats, acceptance is itself a violation
int judge(const char* what, const std::string& doc, bool must_refuse)
{
  Outcome o = parse(doc);
  bool bad;
  if (o.refused)
    {
      bad = o.line < 1 || o.text.empty();
      std::printf("%s: refused, line %d, text \"%s\"%s\n", what, o.line, o.text.c_str(),
                  bad ? "  <-- no located diagnostic" : "");
    }
  else
    {
      bad = must_refuse;
      std::printf("%s: accepted%s\n", what, bad ? "  <-- an error was detected and then lost" : "");
    }
  return bad ? 1 : 0;
}

std::string slurp(const std::string& path)
{
  std::ifstream f(path);
  std::stringstream ss;
  ss << f.rdbuf();
  return ss.str();
}

}

int main(int argc, char** argv)
{
  if (argc < 3) return 2;
  set_gama_language(en);
  std::string inputs = argv[1], check = argv[2];
  // the driver writes <replay>.json next to <replay>.json.inputs; it lists the failed obligations by name
  std::string json;
  if (inputs.size() > 7 && inputs.substr(inputs.size() - 7) == ".inputs") json = slurp(inputs.substr(0, inputs.size() - 7));

  const std::string H = head, T = tail;
  if (check == "endElement")
    {
      int bad = 0, tried = 0;
      bool all = json.empty();
      if (all || json.find("endElement leaves state_coords\"") != std::string::npos || json.find("postcondition") != std::string::npos)
        {
          tried++;
          bad |= judge("</coordinates> without <cov-mat> (endElement in state_coords)",
                       H + "<coordinates>\n<point id=\"B\" x=\"10\" y=\"10\"/>\n</coordinates>\n" + T, true);
        }
      if (all || json.find("endElement leaves state_vectors\"") != std::string::npos || json.find("postcondition") != std::string::npos)
        {
          tried++;
          bad |= judge("</vectors> without <cov-mat> (endElement in state_vectors)",
                       H + "<vectors>\n<vec from=\"A\" to=\"B\" dx=\"1\" dy=\"1\" dz=\"1\"/>\n</vectors>\n" + T, true);
        }
      if (!tried)
        {
          std::printf("the failing pairs (state_start / state_stop) cannot be produced by expat: no document\n");
          return 2;
        }
      std::printf("endElement: %s\n", bad ? "POSTCONDITION VIOLATED (ParserException without line / text)" : "ok");
      return bad ? 1 : 0;
    }
  if (check == "coords_point" || check == "startElement")
    {
      // x="2O" (letter O) is not a number: process_point records "bad coordinate x" and enters state_error,
      // process_coords_point then overwrites state
      int bad = judge("<coordinates><point x=\"2O\"> (error recorded by process_point)",
                      H + "<coordinates>\n<point id=\"B\" x=\"10\" y=\"10\"/>\n<point id=\"C\" x=\"2O\" y=\"20\"/>\n"
                          "<cov-mat dim=\"2\" band=\"0\"> 1 1 </cov-mat>\n</coordinates>\n" + T, true);
      int ctl = judge("control: the same <point x=\"2O\"> outside <coordinates>",
                      H + "<point id=\"C\" x=\"2O\" y=\"20\"/>\n" + T, true);
      std::printf("coords_point: %s\n", bad ? "POSTCONDITION VIOLATED (recorded error lost, input accepted)" : "ok");
      return (bad || ctl) ? 1 : 0;
    }
  std::printf("no native replay for check %s\n", check.c_str());
  return 2;
}
