#!/usr/bin/env python3
"""pre hook of unit gkf_automaton:  check_stubs.py <repo> <scratch-dir>

Syntactic guard for the ASSUMED contracts of the attribute handlers (trusted_base in unit.json).  The contracts
were derived by reading each body; what was relied on is re-checked here on the current text of gkfparser.cpp:

  * the body assigns `state` exactly once, with the enumerator the assumed contract names, and does so before its
    first `error(` call and before its first `return`  (functions assumed to KEEP the state: no assignment at all);
  * the body never writes errCode / errLineNumber / errString itself (only CoreParser::error does);
  * the body never takes the address of `state` and never calls startElement / endElement.

This is not a proof of the assumed contracts (the std::string / std::map code in between is not analysed); it only
makes a later edit that invalidates the reading abort the run with exit 2 instead of going unnoticed.
"""
import os
import re
import sys

sys.path.insert(0, os.path.join(os.path.dirname(os.path.abspath(__file__)), '..', '..', 'gv'))
import extract  # noqa: E402

KEEP = None
ASSUMED = {   # function -> state it assigns (None: state is not assigned)
    'process_gama_xml': 'state_gama_xml', 'process_network': 'state_network',
    'process_parameters': 'state_parameters', 'process_point_obs': 'state_point_obs',
    'process_point': 'state_point', 'process_distance': 'state_obs_distance',
    'process_angle': 'state_obs_angle', 'process_direction': 'state_obs_direction',
    'process_sdistance': 'state_obs_sdistance', 'process_zangle': 'state_obs_zangle',
    'process_azimuth': 'state_obs_azimuth', 'process_obs': 'state_obs',
    'process_coords': 'state_coords', 'process_hdiffs': 'state_hdiffs', 'process_dh': 'state_hdiffs_dh',
    'process_vectors': 'state_vectors', 'process_vec': 'state_vectors_vec',
    'process_cov': KEEP, 'finish_cov': KEEP, 'finish_obs': KEEP, 'finish_hdiffs': KEEP,
    'finish_coords': KEEP, 'finish_vectors': KEEP,
}
PARAMS = {'finish_cov': 'CovMat& cov_mat', 'finish_obs': '', 'finish_hdiffs': '', 'finish_coords': '',
          'finish_vectors': ''}


def main():
    repo = sys.argv[1]
    path = os.path.join(repo, 'lib/gnu_gama/xml/gkfparser.cpp')
    try:
        src = extract.strip_comments(open(path, encoding='utf-8', errors='replace').read())
    except OSError as e:
        sys.exit('check_stubs: cannot read %s: %s' % (path, e))
    # every process_* / finish_* member function defined in the file must be known to this unit
    defined = set(re.findall(r'\bint\s+GKFparser\s*::\s*((?:process|finish)_\w+)\s*\(', src))
    known = set(ASSUMED) | {'process_coords_point'}
    if defined - known:
        sys.exit('check_stubs: new handler(s) without a contract in unit gkf_automaton: %s' % sorted(defined - known))
    bad = []
    for fn, tgt in sorted(ASSUMED.items()):
        header = 'int GKFparser::%s(%s)' % (fn, PARAMS.get(fn, 'const char** atts'))
        try:
            body, line = extract.find_function(src, header)
        except extract.ExtractionBreak as e:
            bad.append('%s: %s' % (fn, e))
            continue
        body_ns = re.sub(r'"(?:[^"\\]|\\.)*"', '""', body)
        assigns = [(m.start(), m.group(1)) for m in re.finditer(r'(?<![\w.>])state\s*=(?!=)\s*(\w+)', body_ns)]
        if re.search(r'(?<![\w.>])state\s*(?:[-+*/|&^]|<<|>>)=|(?:\+\+|--)\s*state\b|\bstate\s*(?:\+\+|--)|&\s*state\b', body_ns):
            bad.append('%s (line %d): state is modified other than by a plain assignment' % (fn, line))
        if tgt is KEEP:
            if assigns:
                bad.append('%s (line %d): assumed not to assign state, but assigns %s' % (fn, line, assigns[0][1]))
        else:
            if [a[1] for a in assigns] != [tgt]:
                bad.append('%s (line %d): assumed to assign state = %s exactly once, found %s'
                           % (fn, line, tgt, [a[1] for a in assigns]))
            else:
                pos = assigns[0][0]
                for what, rx in (('error(', r'\berror\s*\('), ('return', r'\breturn\b')):
                    m = re.search(rx, body_ns)
                    if m and m.start() < pos:
                        bad.append('%s (line %d): `%s` occurs before `state = %s`' % (fn, line, what, tgt))
        m = re.search(r'\b(errCode|errLineNumber|errString)\b', body_ns)
        if m:
            bad.append('%s (line %d): touches %s directly' % (fn, line, m.group(1)))
        m = re.search(r'\b(startElement|endElement|xml_parse)\s*\(', body_ns)
        if m:
            bad.append('%s (line %d): calls %s' % (fn, line, m.group(1)))
    if bad:
        sys.exit('check_stubs: assumed contract no longer matches the text of gkfparser.cpp: ' + ' ; '.join(bad))
    print('check_stubs: %d assumed handler contracts still match the shape of their bodies' % len(ASSUMED))


if __name__ == '__main__':
    main()
