/* Sidecar contracts for the GKF input automaton (property C11, DESIGN.md section 5, C11-U1):
     GKFparser::startElement / endElement / tag / process_coords_point   (lib/gnu_gama/xml/gkfparser.cpp)
     GKFparser::process_{obs,coords,hdiffs,vectors}_cov                  (lib/gnu_gama/xml/gkfparser.h, inline)
     CoreParser::error                                                   (lib/gnu_gama/xml/baseparser.cpp)
   Only contracts, ghost declarations, callee stubs and harnesses live here; every body under contract is
   extracted from /repo on every run.  Enumerator VALUES come from gkf_enums.h, generated from gkfparser.h by the
   pre hook gen_enums.py on every run. */

//@ prelude
#include <limits.h>
#include "gkf_enums.h"
typedef enum gkf_tag gkf_tag;
typedef void *XML_Parser;

/* the data members of CoreParser / GKFparser that the automaton reads or writes */
struct GKFparser {
  XML_Parser parser;
  int  state;          /* CoreParser::state            (baseparser.h)  */
  int  errLineNumber;  /* CoreParser::errLineNumber                    */
  int  errCode;        /* CoreParser::errCode: 0 = no error recorded   */
  bool pp_xydef;       /* GKFparser::pp_xydef, pp_zdef (process_point) */
  bool pp_zdef;
};

int gv_exc;
/* ghost: the line expat is at during this handler call (what XML_GetCurrentLineNumber returns); >= 1 */
unsigned long gv_line;
/* ghost: the tag that tag(cname) classifies the element name as -- ANY value of enum gkf_tag */
gkf_tag gv_tag;

/* expat (trusted base): XML_Size XML_GetCurrentLineNumber(XML_Parser), XML_Size == unsigned long here */
static unsigned long XML_GetCurrentLineNumber(XML_Parser p) { (void)p; return gv_line; }

/* tag(cname) inside startElement: symbolic.  That the real tag() only ever returns enumerators is check "tag". */
static gkf_tag GKF_tag_any(struct GKFparser *self, const char *cname) { (void)self; (void)cname; return gv_tag; }

/* std::string operations that do not touch state / errCode / errLineNumber (rule R14: message text dropped) */
static void GKF_errString_assign(struct GKFparser *self) { (void)self; }     /* errString = std::string(text)  */
static void GKF_store_description(struct GKFparser *self) { (void)self; }    /* lnet.description = description */
static void GKF_coords_push_back(struct GKFparser *self) { (void)self; }     /* coordinates->observation_list.push_back(new X|Y|Z(..)) */
/* string(s, len) appended to description / cov_mat_data: reads exactly [s, s+len) */
static void GKF_append_text(struct GKFparser *self, const char *s, int len)
{
  (void)self;
  __CPROVER_assert(len >= 0 && (len == 0 || __CPROVER_r_ok(s, (size_t)len)), "string(s, len) reads inside the buffer expat handed over");
}
/* <cctype> isspace: any answer; the argument must be inside the glibc table domain -128 .. 255 (DESIGN.md 4.1) */
int gv_saw_nonspace;   /* ghost: some isspace() call of this handler invocation answered "no" */
static int gv_isspace(int c)
{
  int any;
  __CPROVER_assert(c >= -128 && c <= 255, "isspace argument inside the classifier table");
  if (!any) gv_saw_nonspace = 1;
  return any;
}
static int gv_strcmp(const char *a, const char *b) { int any; (void)a; (void)b; return any; }   /* strcmp: any result */

#define GKF_SELF_OK(p) __CPROVER_rw_ok((p), sizeof(struct GKFparser))
#define GKF_STATE_OK(s) (0 <= (s) && (s) <= state_stop)
/* class invariant: a recorded error is never lost.  BaseParser::xml_parse only looks at `state == 0` after
   the chunk, and CoreParser::error is a no-op once errCode != 0, so an object with errCode != 0 and
   state != state_error can never report anything again. */
#define GKF_INV(p) ((p)->errCode == 0 || (p)->state == state_error)
/* located diagnostic: an error is recorded and its line is the line expat was at */
#define GKF_DIAG(p) ((p)->errCode != 0 && (p)->errLineNumber == (int)gv_line)
#define GKF_ENV_OK (gv_line >= 1 && gv_line <= (unsigned long)INT_MAX && (int)gv_tag >= 0 && (int)gv_tag <= (int)GKF_TAG_LAST)

/* ---- specification of the automaton, written from the content models of xml/gama-local.xsd -----------------
   state_X            = inside element X, no <cov-mat> seen yet
   state_X_cov        = inside the <cov-mat> of X;  state_X_after_cov = after it (xs:sequence: nothing may follow)
   leaf elements (description, parameters, point, direction, ..., dh, vec, cov-mat) have no element children.   */
static int gv_start_target(int s, int t)
{
  switch (s) {
  case state_start:     return t == tag_gama_xml ? state_gama_xml : state_error;
  case state_gama_xml:  return t == tag_network ? state_network : state_error;
  case state_network:   return t == tag_description ? state_description
                             : t == tag_parameters ? state_parameters
                             : t == tag_points_observations ? state_point_obs : state_error;
  case state_point_obs: return t == tag_point ? state_point
                             : t == tag_obs ? state_obs
                             : t == tag_coordinates ? state_coords
                             : t == tag_height_differences ? state_hdiffs
                             : t == tag_vectors ? state_vectors : state_error;
  case state_obs:       return t == tag_direction ? state_obs_direction
                             : t == tag_distance ? state_obs_distance
                             : t == tag_angle ? state_obs_angle
                             : t == tag_s_distance ? state_obs_sdistance
                             : t == tag_z_angle ? state_obs_zangle
                             : t == tag_azimuth ? state_obs_azimuth
                             : t == tag_cov_mat ? state_obs_cov : state_error;
  case state_coords:    return t == tag_point ? state_coords_point : t == tag_cov_mat ? state_coords_cov : state_error;
  case state_hdiffs:    return t == tag_dh ? state_hdiffs_dh : t == tag_cov_mat ? state_hdiffs_cov : state_error;
  case state_vectors:   return t == tag_vec ? state_vectors_vec : t == tag_cov_mat ? state_vectors_cov : state_error;
  default:              return state_error;   /* leaves, *_cov, *_after_cov, stop, error: no child element allowed */
  }
}

static int gv_end_target(int s)
{
  switch (s) {
  case state_gama_xml:          return state_stop;
  case state_network:           return state_gama_xml;
  case state_description:
  case state_parameters:
  case state_point_obs:         return state_network;
  case state_point:             return state_point_obs;
  case state_obs_direction:
  case state_obs_distance:
  case state_obs_angle:
  case state_obs_sdistance:
  case state_obs_zangle:
  case state_obs_azimuth:       return state_obs;
  case state_obs_cov:           return state_obs_after_cov;
  case state_obs:                                           /* <cov-mat> is optional in <obs> ...            */
  case state_obs_after_cov:     return state_point_obs;
  case state_hdiffs_dh:         return state_hdiffs;
  case state_hdiffs_cov:        return state_hdiffs_after_cov;
  case state_hdiffs:                                        /* ... and in <height-differences>               */
  case state_hdiffs_after_cov:  return state_point_obs;
  case state_coords_point:      return state_coords;
  case state_coords_cov:        return state_coords_after_cov;
  case state_coords_after_cov:  return state_point_obs;
  case state_coords:            return state_error;         /* <cov-mat> is REQUIRED in <coordinates> ...    */
  case state_vectors_vec:       return state_vectors;
  case state_vectors_cov:       return state_vectors_after_cov;
  case state_vectors_after_cov: return state_point_obs;
  case state_vectors:           return state_error;         /* ... and in <vectors>                          */
  default:                      return state_error;         /* start, stop, error: no element is open        */
  }
}

/* ---- ASSUMED contracts of the attribute handlers (trusted base, one line each in unit.json) ----------------
   Each body was read; the shape is always: `state = T;` first (or state untouched), then zero or more
   error(...) calls, never another assignment to state.  Called with no error recorded, so the first error()
   call records the line.  TGT is the state in which the call returns when it recorded no error. */
#define GKF_CALLEE_CONTRACT(TGT)                                                                          \
  __CPROVER_requires(GKF_SELF_OK(self))                                                                   \
  __CPROVER_requires(self->errCode == 0 && self->state != state_error)                                    \
  __CPROVER_assigns(self->state, self->errCode, self->errLineNumber)                                      \
  __CPROVER_ensures((self->state == (TGT) && self->errCode == 0 &&                                        \
                     self->errLineNumber == __CPROVER_old(self->errLineNumber)) ||                        \
                    (self->state == state_error && GKF_DIAG(self)))
#define GKF_KEEP __CPROVER_old(self->state)

/* exclusion predicate of the finding "process_coords_point loses the error recorded by process_point"
   (used only by the second pass of a registered known finding): the <point> inside <coordinates> is well-formed */
#ifdef GV_EXCL_POINT_ERROR_IN_COORDS
#define GKF_POINT_MAY_FAIL 0
#else
#define GKF_POINT_MAY_FAIL 1
#endif

int GKF_process_gama_xml(struct GKFparser *self, const char **atts)  GKF_CALLEE_CONTRACT(state_gama_xml);
int GKF_process_network(struct GKFparser *self, const char **atts)   GKF_CALLEE_CONTRACT(state_network);
int GKF_process_parameters(struct GKFparser *self, const char **atts) GKF_CALLEE_CONTRACT(state_parameters);
int GKF_process_point_obs(struct GKFparser *self, const char **atts) GKF_CALLEE_CONTRACT(state_point_obs);
int GKF_process_point(struct GKFparser *self, const char **atts)
  __CPROVER_requires(GKF_SELF_OK(self))
  __CPROVER_requires(self->errCode == 0 && self->state != state_error)
  __CPROVER_assigns(self->state, self->errCode, self->errLineNumber, self->pp_xydef, self->pp_zdef)
  __CPROVER_ensures((self->state == state_point && self->errCode == 0 &&
                     self->errLineNumber == __CPROVER_old(self->errLineNumber)) ||
                    (GKF_POINT_MAY_FAIL && self->state == state_error && GKF_DIAG(self)));
int GKF_process_obs(struct GKFparser *self, const char **atts)       GKF_CALLEE_CONTRACT(state_obs);
int GKF_process_direction(struct GKFparser *self, const char **atts) GKF_CALLEE_CONTRACT(state_obs_direction);
int GKF_process_distance(struct GKFparser *self, const char **atts)  GKF_CALLEE_CONTRACT(state_obs_distance);
int GKF_process_angle(struct GKFparser *self, const char **atts)     GKF_CALLEE_CONTRACT(state_obs_angle);
int GKF_process_sdistance(struct GKFparser *self, const char **atts) GKF_CALLEE_CONTRACT(state_obs_sdistance);
int GKF_process_zangle(struct GKFparser *self, const char **atts)    GKF_CALLEE_CONTRACT(state_obs_zangle);
int GKF_process_azimuth(struct GKFparser *self, const char **atts)   GKF_CALLEE_CONTRACT(state_obs_azimuth);
int GKF_process_coords(struct GKFparser *self, const char **atts)    GKF_CALLEE_CONTRACT(state_coords);
int GKF_process_hdiffs(struct GKFparser *self, const char **atts)    GKF_CALLEE_CONTRACT(state_hdiffs);
int GKF_process_dh(struct GKFparser *self, const char **atts)        GKF_CALLEE_CONTRACT(state_hdiffs_dh);
int GKF_process_vectors(struct GKFparser *self, const char **atts)   GKF_CALLEE_CONTRACT(state_vectors);
int GKF_process_vec(struct GKFparser *self, const char **atts)       GKF_CALLEE_CONTRACT(state_vectors_vec);
int GKF_process_cov(struct GKFparser *self, const char **atts)       GKF_CALLEE_CONTRACT(GKF_KEEP);
int GKF_finish_obs(struct GKFparser *self)                           GKF_CALLEE_CONTRACT(GKF_KEEP);
int GKF_finish_hdiffs(struct GKFparser *self)                        GKF_CALLEE_CONTRACT(GKF_KEEP);
int GKF_finish_coords(struct GKFparser *self)                        GKF_CALLEE_CONTRACT(GKF_KEEP);
int GKF_finish_vectors(struct GKFparser *self)                       GKF_CALLEE_CONTRACT(GKF_KEEP);

/* forward declarations of the functions under contract that are called before their definition */
int GKF_error(struct GKFparser *self);
int GKF_process_coords_point(struct GKFparser *self, const char **atts);
int GKF_process_obs_cov(struct GKFparser *self, const char **atts);
int GKF_process_coords_cov(struct GKFparser *self, const char **atts);
int GKF_process_hdiffs_cov(struct GKFparser *self, const char **atts);
int GKF_process_vectors_cov(struct GKFparser *self, const char **atts);
//@ end

/* ------------------------------------------------------------------------------------------------ */
/* (O4) CoreParser::error: first error wins, the error state is entered, the line comes from expat.  */
//@ contract GKF_error
__CPROVER_requires(GKF_SELF_OK(self))
__CPROVER_requires(GKF_INV(self))
__CPROVER_requires(gv_line >= 1 && gv_line <= (unsigned long)INT_MAX)
__CPROVER_assigns(self->state, self->errCode, self->errLineNumber)
__CPROVER_ensures(self->state == state_error)
__CPROVER_ensures(self->errCode != 0)
__CPROVER_ensures(__CPROVER_old(self->errCode) != 0 ==>
                  (self->errCode == __CPROVER_old(self->errCode) &&
                   self->errLineNumber == __CPROVER_old(self->errLineNumber)))
__CPROVER_ensures(__CPROVER_old(self->errCode) == 0 ==> self->errLineNumber == (int)gv_line)
//@ entry GKF_error
GV_CANARY("GKF_error entry");
//@ end

/* tag(): reads the first byte only directly, returns an enumerator of gkf_tag for every strcmp outcome */
//@ contract GKF_tag
__CPROVER_requires(__CPROVER_r_ok(c, 1))
__CPROVER_assigns()
__CPROVER_ensures((int)__CPROVER_return_value >= 0 && (int)__CPROVER_return_value <= (int)GKF_TAG_LAST)
//@ entry GKF_tag
GV_CANARY("GKF_tag entry");
//@ end

/* the four inline cov-mat openers of gkfparser.h: same shape of contract as every attribute handler */
//@ contract GKF_process_obs_cov
GKF_CALLEE_CONTRACT(state_obs_cov)
//@ entry GKF_process_obs_cov
GV_CANARY("GKF_process_obs_cov entry");
//@ contract GKF_process_coords_cov
GKF_CALLEE_CONTRACT(state_coords_cov)
//@ entry GKF_process_coords_cov
GV_CANARY("GKF_process_coords_cov entry");
//@ contract GKF_process_hdiffs_cov
GKF_CALLEE_CONTRACT(state_hdiffs_cov)
//@ entry GKF_process_hdiffs_cov
GV_CANARY("GKF_process_hdiffs_cov entry");
//@ contract GKF_process_vectors_cov
GKF_CALLEE_CONTRACT(state_vectors_cov)
//@ entry GKF_process_vectors_cov
GV_CANARY("GKF_process_vectors_cov entry");
//@ end

/* <point> inside <coordinates>: accepted (state_coords_point, nothing recorded) or refused with a located
   diagnostic -- in particular an error recorded by process_point must not be lost (GKF_INV). */
//@ contract GKF_process_coords_point
__CPROVER_requires(GKF_SELF_OK(self))
__CPROVER_requires(self->errCode == 0 && self->state != state_error)
__CPROVER_requires(gv_line >= 1 && gv_line <= (unsigned long)INT_MAX)
__CPROVER_assigns(self->state, self->errCode, self->errLineNumber, self->pp_xydef, self->pp_zdef)
__CPROVER_ensures(GKF_INV(self))
__CPROVER_ensures((self->state == state_coords_point && self->errCode == 0 &&
                   self->errLineNumber == __CPROVER_old(self->errLineNumber)) ||
                  (self->state == state_error && GKF_DIAG(self)))
//@ entry GKF_process_coords_point
GV_CANARY("GKF_process_coords_point entry");
//@ end

/* ------------------------------------------------------------------------------------------------ */
/* startElement: for EVERY state in [0, state_stop] and EVERY tag                                     */
//@ contract GKF_startElement
__CPROVER_requires(GKF_SELF_OK(self))
__CPROVER_requires(GKF_STATE_OK(self->state) && GKF_INV(self) && GKF_ENV_OK)
__CPROVER_assigns(self->state, self->errCode, self->errLineNumber, self->pp_xydef, self->pp_zdef)
/* O1 */ __CPROVER_ensures(GKF_STATE_OK(self->state))
/* O2 */ __CPROVER_ensures(__CPROVER_old(self->state) == state_error ==> self->state == state_error)
/* O3 */ __CPROVER_ensures((__CPROVER_old(self->state) != state_error && self->state == state_error) ==> GKF_DIAG(self))
/* O5 */ __CPROVER_ensures(self->state == gv_start_target(__CPROVER_old(self->state), (int)gv_tag) || self->state == state_error)
/* O6 */ __CPROVER_ensures(GKF_INV(self))
/* O7 */ __CPROVER_ensures(__CPROVER_old(self->errCode) != 0 ==>
                           (self->errCode == __CPROVER_old(self->errCode) &&
                            self->errLineNumber == __CPROVER_old(self->errLineNumber)))
//@ entry GKF_startElement
GV_CANARY("GKF_startElement entry");
//@ end

/* endElement: for EVERY state in [0, state_stop] (the element name is not looked at) */
//@ contract GKF_endElement
__CPROVER_requires(GKF_SELF_OK(self))
__CPROVER_requires(GKF_STATE_OK(self->state) && GKF_INV(self) && GKF_ENV_OK)
__CPROVER_assigns(self->state, self->errCode, self->errLineNumber)
/* O1 */ __CPROVER_ensures(GKF_STATE_OK(self->state))
/* O2 */ __CPROVER_ensures(__CPROVER_old(self->state) == state_error ==> self->state == state_error)
/* O3 */ __CPROVER_ensures((__CPROVER_old(self->state) != state_error && self->state == state_error) ==> GKF_DIAG(self))
/* O5 */ __CPROVER_ensures(self->state == gv_end_target(__CPROVER_old(self->state)) || self->state == state_error)
/* O6 */ __CPROVER_ensures(GKF_INV(self))
/* O7 */ __CPROVER_ensures(__CPROVER_old(self->errCode) != 0 ==>
                           (self->errCode == __CPROVER_old(self->errCode) &&
                            self->errLineNumber == __CPROVER_old(self->errLineNumber)))
//@ entry GKF_endElement
GV_CANARY("GKF_endElement entry");
//@ end

/* characterDataHandler: text never moves the automaton except into state_error (with a located diagnostic);
   text is legal inside <description> and <cov-mat>; reads stay inside [s, s+len) */
//@ contract GKF_characterDataHandler
__CPROVER_requires(GKF_SELF_OK(self))
__CPROVER_requires(GKF_STATE_OK(self->state) && GKF_INV(self) && GKF_ENV_OK)
__CPROVER_requires(len >= 0 && (len > 0 ==> __CPROVER_r_ok(s, (size_t)len)))
__CPROVER_requires(gv_saw_nonspace == 0)
__CPROVER_assigns(self->state, self->errCode, self->errLineNumber, gv_saw_nonspace)
__CPROVER_ensures(self->state == __CPROVER_old(self->state) || self->state == state_error)
/* element-only content (xsd): text that is not white space is refused everywhere else */
__CPROVER_ensures(gv_saw_nonspace ==> self->state == state_error)
__CPROVER_ensures((__CPROVER_old(self->state) == state_description || __CPROVER_old(self->state) == state_obs_cov ||
                   __CPROVER_old(self->state) == state_coords_cov || __CPROVER_old(self->state) == state_hdiffs_cov ||
                   __CPROVER_old(self->state) == state_vectors_cov) ==> self->state == __CPROVER_old(self->state))
__CPROVER_ensures((__CPROVER_old(self->state) != state_error && self->state == state_error) ==> GKF_DIAG(self))
__CPROVER_ensures(GKF_INV(self))
__CPROVER_ensures(__CPROVER_old(self->errCode) != 0 ==>
                  (self->errCode == __CPROVER_old(self->errCode) &&
                   self->errLineNumber == __CPROVER_old(self->errLineNumber)))
//@ entry GKF_characterDataHandler
GV_CANARY("GKF_characterDataHandler entry");
//@ loop GKF_characterDataHandler 1
__CPROVER_assigns(b, gv_saw_nonspace)
__CPROVER_loop_invariant(0 <= b && b <= len && gv_saw_nonspace == 0)
__CPROVER_decreases(len - b)
//@ end

/* ------------------------------------------------------------------------------------------------ */
//@ harness
#ifndef GV_WHICH
#define GV_WHICH 0
#endif
#define GKF_STATIC_FACTS                                                                                   \
  __CPROVER_assert(state_error == 0, "state_error is 0 (BaseParser::xml_parse tests state == 0, CoreParser::error assigns 0)"); \
  __CPROVER_assert(tag_unknown == 0 && state_stop == GKF_STATE_LAST, "state_stop is the last state, tag_unknown the first tag")

/* an arbitrary parser object: every state of [0, state_stop], any recorded / not recorded error consistent
   with the class invariant, any tag, any line */
static void mk_parser(struct GKFparser *P)
{
  struct GKFparser any;
  *P = any;
  __CPROVER_assume(GKF_STATE_OK(P->state));
  __CPROVER_assume(GKF_INV(P));
  __CPROVER_assume(GKF_ENV_OK);
#ifdef GV_STATE_LO
  __CPROVER_assume(P->state >= GV_STATE_LO && P->state <= GV_STATE_HI);   /* split of the state range, if ever needed */
#endif
}

/* the complete postcondition once more, instantiated per pair, so that every (state, tag) pair is an
   obligation of its own and a failure names the pair */
#define POST_COMMON(s1, c1, l1, s0, c0, l0, tgt)                                                           \
  (GKF_STATE_OK(s1) && ((s0) != state_error || (s1) == state_error) &&                                     \
   (!((s0) != state_error && (s1) == state_error) || ((c1) != 0 && (l1) == gv_ln)) &&                      \
   ((s1) == (tgt) || (s1) == state_error) && ((c1) == 0 || (s1) == state_error) &&                         \
   ((c0) == 0 || ((c1) == (c0) && (l1) == (l0))))

void h_startElement(void)
{
  struct GKFparser P;
  const char *cname;
  const char **atts;
  GKF_STATIC_FACTS;
  mk_parser(&P);
  const int s0 = P.state, c0 = P.errCode, l0 = P.errLineNumber, t0 = (int)gv_tag;
  GKF_startElement(&P, cname, atts);
  const int s1 = P.state, c1 = P.errCode, l1 = P.errLineNumber, gv_ln = (int)gv_line;
#define PAIR(S, T) __CPROVER_assert(!(s0 == S && t0 == T) || POST_COMMON(s1, c1, l1, s0, c0, l0, gv_start_target(S, T)), \
                                    "O1-O7 startElement in " #S " on " #T);
#define ROW(S) GKF_FOR_EACH_TAG2(PAIR, S)
  GKF_FOR_EACH_STATE(ROW)
#undef ROW
#undef PAIR
  GV_CANARY("h_startElement end");
}

void h_endElement(void)
{
  struct GKFparser P;
  const char *name;
  GKF_STATIC_FACTS;
  mk_parser(&P);
#ifdef GV_EXCL_END_WITHOUT_DIAGNOSTIC
  /* exclusion predicate of the known finding (DESIGN.md section 6 item 9): the four states in which
     endElement enters state_error without calling error() */
  __CPROVER_assume(P.state != state_coords && P.state != state_vectors && P.state != state_start &&
                   P.state != state_stop);
#endif
  const int s0 = P.state, c0 = P.errCode, l0 = P.errLineNumber;
  GKF_endElement(&P, name);
  const int s1 = P.state, c1 = P.errCode, l1 = P.errLineNumber, gv_ln = (int)gv_line;
#define ONE(S) __CPROVER_assert(!(s0 == S) || POST_COMMON(s1, c1, l1, s0, c0, l0, gv_end_target(S)),      \
                                "O1-O7 endElement leaves " #S);
  GKF_FOR_EACH_STATE(ONE)
#undef ONE
  GV_CANARY("h_endElement end");
}

void h_error(void)
{
  struct GKFparser P;
  GKF_STATIC_FACTS;
  __CPROVER_assume(GKF_INV(&P));                       /* any state value at all, also CoreParser's initial -1 */
  __CPROVER_assume(gv_line >= 1 && gv_line <= (unsigned long)INT_MAX);
  GKF_error(&P);
  GV_CANARY("h_error end");
}

void h_tag(void)
{
  unsigned n;
  __CPROVER_assume(n >= 1 && n <= 64);
  char *c = malloc(n);
  __CPROVER_assume(c != NULL);
  gkf_tag r = GKF_tag(c);
  __CPROVER_assert((int)r >= 0 && (int)r < GKF_N_TAGS, "tag() returns an enumerator");
  GV_CANARY("h_tag end");
}

static void mk_fresh(struct GKFparser *P)
{
  mk_parser(P);
  __CPROVER_assume(P->state != state_error && P->errCode == 0);
}

void h_cov_helpers(void)
{
  struct GKFparser P;
  const char **atts;
  GKF_STATIC_FACTS;
  mk_fresh(&P);
  /* one dfcc run enforces one contract: the check's -DGV_WHICH selects the function */
#if GV_WHICH == 0
  GKF_process_obs_cov(&P, atts);
#elif GV_WHICH == 1
  GKF_process_coords_cov(&P, atts);
#elif GV_WHICH == 2
  GKF_process_hdiffs_cov(&P, atts);
#else
  GKF_process_vectors_cov(&P, atts);
#endif
  GV_CANARY("h_cov_helpers end");
}

void h_coords_point(void)
{
  struct GKFparser P;
  const char **atts;
  GKF_STATIC_FACTS;
  mk_fresh(&P);
  GKF_process_coords_point(&P, atts);
  GV_CANARY("h_coords_point end");
}

void h_characterData(void)
{
  struct GKFparser P;
  int len;
  GKF_STATIC_FACTS;
  mk_parser(&P);
  __CPROVER_assume(len >= 0);
  gv_saw_nonspace = 0;
  char *s = malloc((size_t)len);          /* len == 0: an empty object, never read */
  __CPROVER_assume(s != NULL);
  GKF_characterDataHandler(&P, s, len);
  GV_CANARY("h_characterData end");
}
//@ end
