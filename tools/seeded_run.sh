#!/bin/bash
# seeded_run.sh <seeded-id> [tier]  : apply /verif/seeded/<id>/patch.diff to a scratch worktree of /repo HEAD, run the
# registered check of its property against it (GV_REPO), print the verdict, restore the worktree.
id=$1; tier=${2:-quick}; WT=${GV_WT:-/tmp/wt_seeded}
prop=$(python3 -c "import json;print(json.load(open('/verif/seeded/$id/meta.json'))['property'])")
[ -d $WT ] || git -C /repo worktree add -q --detach $WT HEAD
git -C $WT checkout -q --detach $(git -C /repo rev-parse HEAD) 2>/dev/null; git -C $WT checkout -q -- .
git -C $WT apply /verif/seeded/$id/patch.diff || { echo "$id: PATCH DOES NOT APPLY"; exit 3; }
cd /verif && GV_REPO=$WT ./check $prop $tier ${@:3} > /tmp/seeded_$id.out 2>&1; rc=$?
git -C $WT checkout -q -- .
echo "$id ($prop $tier): exit $rc  $(grep -c '^VIOLATION' /tmp/seeded_$id.out) violation line(s); $(grep -E '^FAILED-OBLIGATION' /tmp/seeded_$id.out | head -n 2 | cut -c1-160 | tr '\n' '|')"
