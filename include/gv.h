/* Common proof vocabulary for all units (C, compiled by goto-cc only). */
#ifndef GV_H
#define GV_H
#include <stddef.h>
#include <stdbool.h>
#include <stdlib.h>
#include <float.h>

double sqrt(double);
double fabs(double);

/* exception state of lowered C++ (rule R11): 0 = no exception in flight */
extern int gv_exc;

/* Exception codes of lib/matvec/inderr.h (values are irrelevant, distinctness matters) */
enum {
  GV_BadRank = 1, GV_BadIndex, GV_Singular, GV_BadRegularization, GV_NoConvergence,
  GV_ZeroDivision, GV_NonPositiveDefinite, GV_NotImplemented, GV_StreamError, GV_OtherExc
};

/* Anchor: assert the equality, then re-assign it.  Cannot hide behaviour (it asserts first); it gives
   CBMC's symbolic execution a concrete value set for a pointer that a loop contract has havocked. */
#define GV_ANCHOR(p, e) do { __CPROVER_assert((p) == (e), "anchor " #p " == " #e); (p) = (e); } while (0)

/* forall-elimination of a stated structure precondition at a range-checked ghost index */
#define GV_INST(range, fact) do { __CPROVER_assert(range, "instantiation index in range: " #range); \
                                  __CPROVER_assume(fact); } while (0)

/* Canary: an assertion that MUST fail (reachability of the code behind the preconditions). */
#define GV_CANARY(tag) __CPROVER_assert(0, "GV_CANARY " tag)

#define GV_MIN(a, b) ((a) < (b) ? (a) : (b))
#define GV_MAX(a, b) ((a) > (b) ? (a) : (b))

#define GV_NEW(T, n) ((T *)gv_new((size_t)(n) * sizeof(T)))
#define GV_DELETE(p) free((void *)(p))
static inline void *gv_new(size_t bytes)
{
  void *p = malloc(bytes);
  __CPROVER_assume(p != NULL); /* gama does not handle bad_alloc either; listed in assumptions */
  return p;
}

/* assumed contract of libm sqrt (trusted base): defined for x >= 0, non-negative, positive for positive x */
static inline double gv_sqrt(double x)
{
  __CPROVER_assert(x >= 0, "sqrt argument is non-negative");
  double r;
  __CPROVER_assume(r >= 0 && (x > 0 ? r > 0 : r == 0));
  return r;
}

#define GV_EPS DBL_EPSILON
#define nullptr NULL

#define OFF(p) ((long)__CPROVER_POINTER_OFFSET(p))
#define SAME(p, q) __CPROVER_same_object((p), (q))

#endif
