// Helpers for native replay programs (compiled with g++ against /repo/lib).
#ifndef GV_REPLAY_H
#define GV_REPLAY_H
#include <cstdio>
#include <cstdlib>
#include <cstring>
#include <fstream>
#include <map>
#include <string>

struct GvInputs {
  std::map<std::string, std::string> kv;
  explicit GvInputs(const char* path) {
    std::ifstream f(path);
    std::string line;
    while (std::getline(f, line)) {
      auto p = line.find('=');
      if (p == std::string::npos) continue;
      kv[line.substr(0, p)] = line.substr(p + 1);
    }
  }
  bool has(const std::string& k) const { return kv.count(k) != 0; }
  double num(const std::string& k, double dflt) const {
    auto it = kv.find(k);
    if (it == kv.end()) return dflt;
    std::string v = it->second;
    while (!v.empty() && (v.back() == 'f' || v.back() == 'l' || v.back() == 'u' || v.back() == 'L')) v.pop_back();
    char* e = nullptr;
    double d = std::strtod(v.c_str(), &e);
    if (e == v.c_str()) return dflt;
    return d;
  }
  long integer(const std::string& k, long dflt) const { return (long)num(k, (double)dflt); }
};
#endif
